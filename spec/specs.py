"""Shared specification functions (DESIGN.md section 4).

One text, two faces: every function here is plain Python in the verifier's subset.  The
verifier inlines it symbolically when a contract clause calls S.<name>(...); the replay
harness calls the very same function natively on concrete values.
"""


# ---------------------------------------------------------------------------- C19
def trace_names(trace):
    return [e[0] for e in trace]


def before(names, a, b):
    """If both events occur, (the first) a precedes (the first) b."""
    if a in names and b in names:
        return names.index(a) < names.index(b)
    return True


def count(names, a):
    n = 0
    for x in names:
        if x == a:
            n = n + 1
    return n


PRIV_STEPS = ["pwd.getpwnam", "grp.getgrnam", "os.chroot", "os.chdir", "config.set",
              "os.setgroups", "os.setregid", "os.setreuid"]


def priv_order_ok(names):
    """Ordering half of C19 on the events that are present: name lookups before chroot,
    chroot first among the privilege changes, cwd moved and root rewritten after the chroot,
    setgroups before setregid before setreuid."""
    return (before(names, "pwd.getpwnam", "os.chroot")
            and before(names, "grp.getgrnam", "os.chroot")
            and before(names, "os.chroot", "os.chdir")
            and before(names, "os.chroot", "config.set")
            and before(names, "os.chroot", "os.setgroups")
            and before(names, "os.chroot", "os.setregid")
            and before(names, "os.chroot", "os.setreuid")
            and before(names, "os.chdir", "os.setgroups")
            and before(names, "os.chdir", "os.setregid")
            and before(names, "os.chdir", "os.setreuid")
            and before(names, "os.setgroups", "os.setregid")
            and before(names, "os.setgroups", "os.setreuid")
            and before(names, "os.setregid", "os.setreuid"))


def priv_complete(names, usechroot, has_uid, has_gid):
    """Completeness half of C19: exactly the steps the configuration asks for, once each."""
    return (count(names, "os.chroot") == (1 if usechroot else 0)
            and count(names, "os.chdir") == (1 if usechroot else 0)
            and count(names, "config.set") == (1 if usechroot else 0)
            and count(names, "os.setgroups") == (1 if (has_uid or has_gid) else 0)
            and count(names, "os.setregid") == (1 if has_gid else 0)
            and count(names, "os.setreuid") == (1 if has_uid else 0)
            and count(names, "pwd.getpwnam") == (1 if has_uid else 0)
            and count(names, "grp.getgrnam") == (1 if has_gid else 0)
            and len(names) == count(names, "os.chroot") + count(names, "os.chdir") + count(names, "config.set")
            + count(names, "os.setgroups") + count(names, "os.setregid") + count(names, "os.setreuid")
            + count(names, "pwd.getpwnam") + count(names, "grp.getgrnam"))


def event(trace, name):
    for e in trace:
        if e[0] == name:
            return e
    return None


def priv_args_ok(trace, root, uid, gid):
    """Arguments of the privileged calls."""
    ok = True
    e = event(trace, "os.chroot")
    if e is not None:
        ok = ok and e[1] == root
    e = event(trace, "os.chdir")
    if e is not None:
        ok = ok and e[1] == "/"
    e = event(trace, "config.set")
    if e is not None:
        ok = ok and e[1] == "pygopherd" and e[2] == "root" and e[3] == "/"
    e = event(trace, "os.setgroups")
    if e is not None:
        ok = ok and len(e[1]) == 0
    e = event(trace, "os.setregid")
    if e is not None:
        ok = ok and e[1] == gid and e[2] == gid
    e = event(trace, "os.setreuid")
    if e is not None:
        ok = ok and e[1] == uid and e[2] == uid
    return ok


def lookup_id(trace, name):
    """The id returned by the recorded lookup event (its last component), or None when the
    lookup did not happen or failed."""
    e = event(trace, name)
    if e is not None and len(e) == 3:
        return e[2]
    return None


def aborted_cleanly(names):
    """On an exceptional exit the last thing that happened is the failing call: nothing
    privileged was attempted after a failure."""
    return len(names) >= 1 and names[-1].startswith("FAILED:") and count_failed(names) == 1


def count_failed(names):
    n = 0
    for x in names:
        if x.startswith("FAILED:"):
            n = n + 1
    return n


def strip_failed(names):
    return [x for x in names if not x.startswith("FAILED:")]


def startup_order_ok(names):
    """Binding the socket and loading the TLS keys precede every privilege-dropping step."""
    ok = True
    for p in PRIV_STEPS:
        ok = ok and before(names, "bind", p) and before(names, "load_cert_chain", p)
    return ok


# ---------------------------------------------------------------------------- C02
import re
from ssl import SSLSocket


def tls(proto):
    """A connection is TLS iff its request object is an SSL socket."""
    return isinstance(proto.requesthandler.request, SSLSocket)


def tls_conn(requesthandler):
    return isinstance(requesthandler.request, SSLSocket)


def tabfields(request):
    return [a.strip() for a in request.split("\t")]


def spacefields(request):
    return [a.strip() for a in request.split(" ")]


def shape_gplus(request):
    """Gopher+: selector TAB [search TAB] gopher+-field, the field being '!' or starting with + or $."""
    f = tabfields(request)
    if len(f) == 2:
        g = f[1]
    elif len(f) == 3:
        g = f[2]
    else:
        return False
    return g == "!" or g.startswith("+") or g.startswith("$")


def shape_http(request):
    p = spacefields(request)
    return len(p) == 3 and (p[0] == "GET" or p[0] == "HEAD") and p[2].startswith("HTTP/")


def wap_headers(h):
    return ("accept" in h and re.search("[, ]text/vnd.wap.wml", h["accept"]) is not None
            and ("x-wap-profile" in h or "x-up-devcap-max-pdu" in h))


def shape_wap(request, waptop, headers):
    if not shape_http(request):
        return False
    if spacefields(request)[1].startswith(waptop):
        return True
    return wap_headers(headers)


def shape_gemini(request):
    return request.startswith("gemini://")


def shape_spartan(request):
    """host SP path SP content-length: ASCII, three non-empty parts, the third all digits."""
    if not request.isascii():
        return False
    parts = request.strip().split(" ")
    return len(parts) == 3 and parts[0] != "" and parts[1] != "" and parts[2] != "" and parts[2].isdigit()


TLS_PROTOCOLS = ["GeminiProtocol", "HTTPSProtocol", "SecureGopherProtocol", "SecureGopherPlusProtocol"]


def proto_matches(name, request, is_tls, waptop, headers):
    """Does protocol class `name` claim this first line on a (non-)TLS connection?"""
    if (name in TLS_PROTOCOLS) != is_tls:
        return False
    if name == "GopherProtocol" or name == "SecureGopherProtocol" or name == "EnhancedGopherProtocol":
        return True
    if name == "GopherPlusProtocol" or name == "SecureGopherPlusProtocol" or name == "URLGopherPlus":
        return shape_gplus(request)
    if name == "HTTPProtocol" or name == "HTTPSProtocol":
        return shape_http(request)
    if name == "WAPProtocol":
        return shape_wap(request, waptop, headers)
    if name == "GeminiProtocol":
        return shape_gemini(request)
    if name == "SpartanProtocol":
        return shape_spartan(request)
    return False


def first_matching(order, request, is_tls, waptop, headers):
    for name in order:
        if proto_matches(name, request, is_tls, waptop, headers):
            return name
    return None


def norm(s):
    """Selector normal form: trailing slashes dropped, leading slash added."""
    s = s.rstrip("/")
    if len(s) == 0 or s[0] != "/":
        s = "/" + s
    return s


# ---------------------------------------------------------------------------- C01
def secure(s):
    """The selector filter as the property states it: none of ./ .. // .\\ \\\\ NUL anywhere."""
    return ("./" not in s and ".." not in s and "//" not in s and ".\\" not in s
            and "\\\\" not in s and "\0" not in s)


def no_dotdot(p):
    """No path component of p is '..' (lexical)."""
    return not (p == ".." or p.startswith("../") or p.endswith("/..") or "/../" in p)


def safe_sel(p):
    """A selector-space path that may be handed to a file-system sink: absolute in selector space,
    no '..' component, no NUL."""
    return p.startswith("/") and no_dotdot(p) and "\0" not in p


def abs_root(root):
    """The configured document root is an absolute path without '..' components; either '/' (chroot)
    or not ending in '/'."""
    return root.startswith("/") and no_dotdot(root) and "\0" not in root and (root == "/" or not root.endswith("/"))


def fspath_of(root, selector):
    """root + selector with one trailing slash dropped."""
    if selector.endswith("/"):
        return root + selector[:-1]
    if selector == "" and root.endswith("/"):
        return root[:-1]
    return root + selector


def under(root, p):
    """p is root itself or lexically below it, with no '..' component anywhere: without symlinks
    leaving the root the operating system resolves p inside the root."""
    if p == root:
        return True
    if root == "/":
        return p.startswith("/") and no_dotdot(p) and "\0" not in p
    return p.startswith(root + "/") and no_dotdot(p) and "\0" not in p


def url_shape(s):
    """Selectors of the URL redirect convention."""
    return re.search("^(/|)URL:.+://", s) is not None


def child_name_ok(name):
    """A directory entry name as the operating system returns it: non-empty, no '/', no NUL, not '.' or '..'."""
    return name != "" and "/" not in name and "\0" not in name and name != "." and name != ".."


# ---------------------------------------------------------------------------- C03 / C04 / C20
def gopher_error(msg):
    """RFC 1436 error item."""
    return ("3" + str(msg) + "\t\terror.host\t1\r\n").encode(errors="surrogateescape")


def gplus_error(admin, msg):
    return b"--2\r\n" + b"1 " + admin.encode() + ("\r\n" + str(msg) + "\r\n").encode(errors="surrogateescape")


def status_line(code, meta):
    """Gemini / Spartan status line."""
    return (str(code) + " " + meta + "\r\n").encode(errors="backslashreplace")


def one_line(meta):
    return "\r" not in meta and "\n" not in meta


def gplus_field_ok(g):
    return g == "!" or g.startswith("+") or g.startswith("$")


def gplus_size_header(size):
    """+<size> CRLF, -2 meaning unknown length."""
    return ("+" + str(-2 if size is None else size) + "\r\n").encode()


HTTP_404_HEAD = b"HTTP/1.0 404 Not Found\r\nContent-Type: text/html\r\n\r\n"


def collapse_crlf(meta):
    return re.sub(r"[\r\n]+", " ", meta)


# ---------------------------------------------------------------------------- C04
import stat


def is_reg(statresult):
    return stat.S_ISREG(statresult[0])


def is_dir(statresult):
    return stat.S_ISDIR(statresult[0])


def mime_of(guess, default, mimetype, encoding, encodedmimetype):
    """What populatefromfs must record for a (type, encoding) pair from the MIME tables."""
    gtype = guess[0]
    genc = guess[1]
    if genc:
        return mimetype == "application/octet-stream" and encoding == genc and encodedmimetype == gtype
    if gtype:
        return mimetype == gtype
    return mimetype == default


# ---------------------------------------------------------------------------- C07 / C08
def cmp3(a, b):
    return (1 if a > b else 0) - (1 if a < b else 0)


def umn_rank(n):
    """Numbered entries first, then unnumbered ones, then negative ones."""
    return 0 if n > 0 else (1 if n == 0 else 2)


def umn_cmp(name1, num1, name2, num2):
    """The documented UMN menu order on (title, number) for entries that have a title."""
    if umn_rank(num1) != umn_rank(num2):
        return -1 if umn_rank(num1) < umn_rank(num2) else 1
    if num1 != num2:
        return -1 if num1 < num2 else 1
    return cmp3(name1, name2)


def num_of(n):
    return 0 if n is None else n


def ignored(ignorepatt, pattern):
    """The configured ignore pattern is searched in selectorbase/name."""
    return re.search(ignorepatt, pattern) is not None


# ---------------------------------------------------------------------------- C05 / C06 / C15
def gopher_line(typ, name, selector, host, port, gplus):
    """RFC 1436 menu line (with the Gopher+ flag field when the item supports Gopher+)."""
    return typ + name + "\t" + selector + "\t" + host + "\t" + str(port) + ("\t+\r\n" if gplus else "\r\n")


def is_norm(s):
    """Selector normal form: leading slash, no trailing slash unless it is the root."""
    return s.startswith("/") and (s == "/" or not s.endswith("/"))


def parse_gopher_selector(request):
    """What the Gopher family makes of a request line."""
    return norm(request.split("\t")[0].strip())


def gplus_views(mimetype, language, size):
    if not mimetype:
        return ""
    r = "+VIEWS:\r\n " + mimetype
    if language:
        r = r + " " + language
    r = r + ":"
    if size is not None:
        r = r + " <" + str(size // 1024) + "k>"
    return r + "\r\n"
import urllib.parse


def url_roundtrip(s):
    """HTTP/WAP: percent-encode a selector as the renderers do, cut at '?' and decode once as handle() does."""
    return norm(urllib.parse.unquote(urllib.parse.quote(s, errors="surrogateescape").split("?")[0], errors="surrogateescape"))


def url_link(selector):
    return re.match("(/|)URL:(.+)$", selector) is not None


def gem_link(selector):
    """Gemini/Spartan link target of a local entry: the percent-encoded selector bytes ('/' for the root)."""
    return urllib.parse.quote(selector.encode(errors="surrogateescape")) or "/"


def gem_desc(name):
    d = name or ""
    return d.encode(errors="surrogateescape").decode(errors="backslashreplace")


# ---- C09: reference reading of a gophermap (used by the bounded stand-in and as documentation of the at-assertions)
def gophermap_ref(text, base):
    """One tuple (type, name, selector, host, port) per line of `text`; host/port None = this server.
    `base` is the directory selector ('' for the root).  Written from the property statement."""
    out = []
    for line in text.splitlines(True):
        if "\t" not in line:
            out.append(("i", line.strip(), "fake", "(NULL)", 0))
            continue
        f = [x.strip() for x in line.split("\t")]
        desc = f[0][1:]
        sel = f[1] if f[1] != "" else desc
        if not (sel.startswith("/") or sel.startswith("URL:")):
            sel = base + "/" + sel
        host = f[2] if len(f) >= 3 and f[2] != "" else None
        port = int(f[3]) if len(f) >= 4 and f[3] != "" else None
        out.append((f[0][0], desc, sel, host, port))
    return out
