"""Native replay of a verifier counter-model on the real code.  Run by /venv/bin/python with
cwd = the repository the VCs came from.  Exit 10 = the real code violates the clause on the
concretised input (confirmed), 11 = it does not (the engine or the contract is at fault),
12 = no realiser for this function, or its scenarios passed / were inconclusive,
13 = the harness itself failed (traceback)."""
import json
import os
import sys
import traceback

sys.path.insert(0, os.path.dirname(os.path.dirname(os.path.abspath(__file__))))


def _patch_testutil():
    """pygopherd.testutil binds its mock server to one fixed port: when another check (or a test run) holds it at
    that moment, wait and retry instead of failing the scenario."""
    try:
        import errno, random, time
        from pygopherd import testutil
    except Exception:
        return
    real = testutil.get_testing_server

    def get_testing_server(*a, **kw):
        # get_server logs a failed bind before re-raising: a retried port collision with a concurrent check must
        # not leave an EXCEPTION line in the log the scenario inspects
        from pygopherd import logger as _logger
        for attempt in range(200):
            cur = _logger.log
            _logger.log = lambda msg: None
            try:
                return real(*a, **kw)
            except OSError as e:
                if e.errno != errno.EADDRINUSE:
                    raise
                time.sleep(0.05 + random.random() * 0.25)
            finally:
                _logger.log = cur
        return real(*a, **kw)

    testutil.get_testing_server = get_testing_server


def main():
    path = sys.argv[1]
    d = json.load(open(path))
    from replay import realisers

    fn = d.get("function") or ""
    r = realisers.find(fn)
    if r is None:
        print("no realiser for %s" % fn)
        return 12
    _patch_testutil()
    try:
        res = r(d)
    except Exception:
        traceback.print_exc()
        return 13
    print(json.dumps(res, indent=1, default=repr))
    if res.get("confirmed") is True:
        return 10
    if res.get("confirmed") is False:
        return 11
    if res.get("harness_error"):
        return 13
    return 12


if __name__ == "__main__":
    sys.exit(main())
