"""Realisers: build a concrete call of the real function from a counter-model and evaluate the
contract clause natively (spec functions are plain Python: /verif/spec/specs.py)."""
import ast
import configparser
import io
import os
import sys
import types

from spec import specs as S

REALISERS = []


def realiser(prefix):
    def deco(fn):
        REALISERS.append((prefix, fn))
        return fn

    return deco


def find(fn):
    best = None
    for p, r in REALISERS:
        if fn.startswith(p) and (best is None or len(p) >= len(best[0])):
            best = (p, r)
    return best[1] if best else None


def find_key(fn):
    """The registered prefix that wins for fn (used to run each scenario harness once in the thorough tier)."""
    best = None
    for p, r in REALISERS:
        if fn.startswith(p) and (best is None or len(p) >= len(best)):
            best = p
    return best


def implies(a, b):
    return (not a) or b


class OldEvaluator(ast.NodeTransformer):
    """Replace old(<expr>) by the value <expr> had before the call."""

    def __init__(self, env):
        self.env = env
        self.vals = []

    def visit_Call(self, node):
        if isinstance(node.func, ast.Name) and node.func.id == "old":
            v = eval(compile(ast.Expression(node.args[0]), "<old>", "eval"), dict(self.env))
            self.vals.append(v)
            return ast.copy_location(ast.Subscript(value=ast.Name(id="__old", ctx=ast.Load()), slice=ast.Constant(len(self.vals) - 1), ctx=ast.Load()), node)
        return self.generic_visit(node)


def prepare_clause(clause, pre_env):
    tree = ast.parse(clause.strip(), mode="eval")
    ev = OldEvaluator(pre_env)
    tree = ev.visit(tree)
    ast.fix_missing_locations(tree)
    code = compile(tree, "<clause>", "eval")
    return code, ev.vals


def eval_clause(code, oldvals, env):
    e = dict(env)
    e["__old"] = oldvals
    e.setdefault("implies", implies)
    e.setdefault("S", S)
    return eval(code, e)


# ------------------------------------------------------------------------------ C19
@realiser("pygopherd/initialization.py::init_security")
def r_init_security(d):
    import pygopherd.initialization as init
    from pygopherd import logger

    m = d["model"]
    cfg = configparser.ConfigParser()
    cfg.add_section("pygopherd")
    cfg.set("pygopherd", "root", m.get("cfg[pygopherd/root]", "/srv/gopher") or "/srv/gopher")
    cfg.set("pygopherd", "usechroot", "yes" if m.get("cfgbool[pygopherd/usechroot]") else "no")
    def _cv(key, default):
        v = m.get("cfg[pygopherd/%s]" % key)
        return v.replace("%", "%%") if isinstance(v, str) else default
    if m.get("cfghas[pygopherd/setuid]"):
        cfg.set("pygopherd", "setuid", _cv("setuid", "someuser"))
    if m.get("cfghas[pygopherd/setgid]"):
        cfg.set("pygopherd", "setgid", _cv("setgid", "somegroup"))
    trace = []

    def sys_(name):
        def f(*args):
            trace.append((name,) + tuple(args))
            if m.get("fails_" + name.replace(".", "_")):
                trace.append(("FAILED:" + name,))
                raise OSError(1, "Operation not permitted")
        return f

    def lookup(name, idv):
        def f(arg):
            if m.get("fails_" + name.replace(".", "_")):
                trace.append((name, arg))
                trace.append(("FAILED:" + name,))
                raise KeyError(arg)
            trace.append((name, arg, idv))
            return (arg, "x", idv)
        return f

    fake_os = types.SimpleNamespace(chroot=sys_("os.chroot"), chdir=sys_("os.chdir"), setgroups=sys_("os.setgroups"),
                                    setregid=sys_("os.setregid"), setreuid=sys_("os.setreuid"), path=os.path)
    real_os = init.os
    real_set = cfg.set
    import pwd, grp
    rp, rg = pwd.getpwnam, grp.getgrnam
    logger.log = lambda msg: None

    class Cfg(configparser.ConfigParser):
        pass

    def cfg_set(sec, opt, val):
        trace.append(("config.set", sec, opt, val))
        return real_set(sec, opt, val)

    cfg.set = cfg_set
    ghost = types.SimpleNamespace(trace=trace)
    env = {"config": cfg, "ghost": ghost}
    code, olds = prepare_clause(d["clause"], env)
    init.os = fake_os
    pwd.getpwnam = lookup("pwd.getpwnam", int(m.get("pwd_getpwnam_id", 1234)))
    grp.getgrnam = lookup("grp.getgrnam", int(m.get("grp_getgrnam_id", 5678)))
    raised = None
    try:
        init.init_security(cfg)
    except Exception as e:  # noqa
        raised = e
    finally:
        init.os = real_os
        pwd.getpwnam, grp.getgrnam = rp, rg
    env["raised"] = raised
    kind = d.get("kind")
    holds = bool(eval_clause(code, olds, env))
    if kind == "ensures" and raised is not None:
        return {"confirmed": None, "note": "model predicted normal exit, real code raised %r" % raised, "trace": trace}
    return {"confirmed": (not holds), "clause_holds_natively": holds, "trace": trace, "raised": repr(raised)}


# ------------------------------------------------------------------- generic: protocol methods
def _config(m):
    from pygopherd import testutil
    cfg = testutil.get_config()
    for k, v in m.items():
        if k.startswith("cfg[") and isinstance(v, str):
            sec, opt = k[4:-1].split("/", 1)
            if not cfg.has_section(sec):
                cfg.add_section(sec)
            cfg.set(sec, opt, v.replace("%", "%%"))
        elif k.startswith("cfgbool["):
            sec, opt = k[8:-1].split("/", 1)
            if not cfg.has_section(sec):
                cfg.add_section(sec)
            cfg.set(sec, opt, "yes" if v else "no")
        elif k.startswith("cfgint[") and isinstance(v, int):
            sec, opt = k[7:-1].split("/", 1)
            if not cfg.has_section(sec):
                cfg.add_section(sec)
            cfg.set(sec, opt, str(v))
    return cfg


def _bytes(s):
    if isinstance(s, bytes):
        return s
    return (s or "").encode("latin-1", "replace")


def _class_of(function):
    # "pygopherd/protocols/http.py::HTTPProtocol.canhandlerequest [self: WAPProtocol]"
    import importlib
    rel, rest = function.split("::", 1)
    selfcls = None
    if "[self:" in rest:
        rest, sc = rest.split("[self:")
        selfcls = sc.strip(" ]")
        rest = rest.strip()
    mod = importlib.import_module(rel[:-3].replace("/", "."))
    if "." in rest:
        cname, meth = rest.split(".", 1)
        cls = getattr(mod, cname)
        _class_of.defining = cls
        if selfcls and selfcls != cname:
            cls = _find_class(selfcls)
        return mod, cls, meth
    return mod, None, rest


def _find_class(name):
    import importlib, pkgutil
    import pygopherd.protocols, pygopherd.handlers
    for pkg in (pygopherd.protocols, pygopherd.handlers):
        for mi in pkgutil.iter_modules(pkg.__path__):
            try:
                mod = importlib.import_module(pkg.__name__ + "." + mi.name)
            except Exception:
                continue
            if hasattr(mod, name):
                return getattr(mod, name)
    import pygopherd.server
    return getattr(pygopherd.server, name)


def _mk_protocol(cls, m, tls, prefix="self."):
    from pygopherd import testutil
    cfg = _config(m)
    content = _bytes(m.get(prefix + "rfile.content", m.get("rfile.content", "")))
    pos = m.get(prefix + "rfile.pos", m.get("rfile.pos", 0)) or 0
    rfile = io.BytesIO(content[pos:] if isinstance(pos, int) and pos >= 0 else content)
    wfile = io.BytesIO()
    handler = testutil.get_testing_handler(io.BytesIO(), io.BytesIO(), cfg, use_tls=tls)
    handler.rfile, handler.wfile = rfile, wfile
    req = m.get(prefix + "request", m.get("request", ""))
    if not isinstance(req, str):
        req = ""
    proto = cls(req, handler.server, handler, rfile, wfile, cfg)
    return proto, handler, cfg


def _native_check(d, env_fn, call_fn, complete=True):
    """Try tls in (False, True): confirmed iff for some variant the clause is natively false (or an
    undeclared exception escapes for a raises obligation)."""
    attempts = []
    for tls in (False, True):
        try:
            env = env_fn(tls)
            code, olds = prepare_clause(d["clause"], env) if d["kind"] in ("ensures", "on_raise", "canary") else (None, None)
            raised = None
            result = None
            try:
                result = call_fn(env)
            except Exception as e:  # noqa
                raised = e
            env["result"] = result
            env["raised"] = raised
            if d["kind"] == "raises":
                attempts.append({"tls": tls, "raised": repr(raised)})
                if raised is not None and type(raised).__name__ in d["clause"]:
                    return {"confirmed": True, "witness": attempts[-1]}
                continue
            if raised is not None:
                attempts.append({"tls": tls, "raised": repr(raised)})
                continue
            holds = bool(eval_clause(code, olds, env))
            attempts.append({"tls": tls, "result": repr(result), "clause_holds": holds})
            if not holds:
                return {"confirmed": True, "witness": attempts[-1], "input": {k: repr(v)[:200] for k, v in d["model"].items() if "request" in k or "selector" in k}}
        except Exception as e:  # noqa
            import traceback
            attempts.append({"tls": tls, "harness_error": traceback.format_exc()[-600:]})
    if any("harness_error" in a for a in attempts):
        return {"confirmed": None, "attempts": attempts}
    return {"confirmed": False if complete else None, "attempts": attempts}


@realiser("pygopherd/protocols/")
def r_protocol(d):
    mod, cls, meth = _class_of(d["function"])
    m = d["model"]
    if d.get("kind") == "standin":
        if meth in ("canhandlerequest", "getProtocol", "__init__", "check_tls", "headerslurp"):
            return r_protocol_corpus(d)
        return r_site_crawl(d)
    if cls is None:
        return r_getprotocol(d)
    state = {}

    def env_fn(tls):
        proto, handler, cfg = _mk_protocol(cls, m, tls)
        state["proto"] = proto
        ghost = types.SimpleNamespace()
        env = {"self": proto, "ghost": ghost}
        for k, v in m.items():
            if k.startswith("self.") and k.count(".") == 1 and k[5:] not in ("request",) and isinstance(v, (str, int, bool)):
                try:
                    setattr(proto, k[5:], v)
                except Exception:
                    pass
        ghost.conn_headers = _LazyHeaders(handler)
        if meth == "__init__":
            env.update(request=proto.request, server=proto.server, requesthandler=proto.requesthandler,
                       rfile=proto.rfile, wfile=proto.wfile, config=proto.config)
        return env

    def call_fn(env):
        proto = env["self"]
        if meth == "__init__":
            return None
        import inspect
        fn = getattr(_class_of.defining, meth)
        names = [p for p in inspect.signature(fn).parameters][1:]
        args = [m.get(n, "") for n in names]
        for n, a in zip(names, args):
            env[n] = a
        return fn(proto, *args)

    # only pure predicates are fully controlled by the model; anything that calls into handlers is not
    return _native_check(d, env_fn, call_fn, complete=meth in ("canhandlerequest", "__init__", "slashnormalize", "check_tls", "adjustmimetype", "adjust_mimetype"))


class _LazyHeaders(dict):
    """ghost.conn_headers: by definition the per-connection header map once slurped."""

    def __init__(self, handler):
        self.h = handler

    def _d(self):
        return getattr(self.h, "pygopherd_http_slurped", {})

    def __contains__(self, k):
        return k in self._d()

    def __getitem__(self, k):
        return self._d()[k]


def r_protocol_corpus(d):
    """Bounded stand-in for protocol detection: a corpus of request lines x {plaintext, TLS} through the real
    getProtocol, compared with the specification first_matching over the configured order."""
    import ast as _ast
    from pygopherd import testutil, logger
    logger.log = lambda m: None
    cfg = testutil.get_config()
    order = [e.attr for e in _ast.parse(cfg.get("protocols.ProtocolMultiplexer", "protocols").strip(), mode="eval").body.elts]
    waptop = cfg.get("protocols.wap.WAPProtocol", "waptop")
    sels = ["/", "", "/a b", "/x\ty", "\t", "/s\t", "/s\tq\t", "/s\t+", "/s\t!", "/s\t$", "/s\t!x", "/s\tq\t+", "/s\tq\t$x", "/s\ta\tb\t+",
            "GET / HTTP/1.0", "HEAD /x HTTP/1.1", "GET  / HTTP/1.0", "GET / HTTP/1.0 x", "GET /wap/x HTTP/1.0", "POST / HTTP/1.0", "GET / http/1.0",
            "gemini://h/x", "Gemini://h/x", " gemini://h/", "h /p 0", "h /p 12", "h /p -1", "h /p x", "h  /p 0", "h /p 0 0", "h /p \u0662", "\x16/s", "h /\xe9 0",
            "/s\t+\t", "/s\t!\t", "/s\t$\t\t", "/s\tq\t+\t", "/s\t\t+", "/s\t\t", "/s\t+\tx", "/s\t \t+", "h / +0", "h /f 1_0", "my notes 2_0_2_4", "h /p -0", "h /p \t5", "h /p 5 ", "h /p 0x10", "h /p 1e3", "h /p ٣", "h /p ²"]
    for line in sels:
        for tls in (False, True):
            req = line + "\r\n"
            try:
                p_ = testutil.get_testing_protocol(req, cfg, use_tls=tls)
                got = type(p_).__name__ if p_ is not None else None
            except Exception as e:  # noqa
                return {"confirmed": True, "request": req, "tls": tls, "raised": repr(e)}
            exp = S.first_matching(order, req, tls, waptop, {})
            if got != exp:
                return {"confirmed": True, "request": req, "tls": tls, "claimed_by": got, "specification": exp}
    # WAP is detected from the request headers as documented: WML in Accept (first, only or later entry) plus a WAP device header
    blocks = [("GET /x HTTP/1.0\r\nAccept: text/vnd.wap.wml\r\nX-Wap-Profile: \"http://x/y\"\r\n\r\n", "WAPProtocol"),
              ("GET /x HTTP/1.0\r\nAccept: text/html, text/vnd.wap.wml\r\nX-Up-Devcap-Max-Pdu: 1024\r\n\r\n", "WAPProtocol"),
              ("GET /x HTTP/1.0\r\nAccept: text/vnd.wap.wml, text/html\r\nX-Wap-Profile: p\r\n\r\n", "WAPProtocol"),
              ("GET /x HTTP/1.0\r\nAccept: text/html\r\nX-Wap-Profile: p\r\n\r\n", "HTTPProtocol"),
              ("GET /x HTTP/1.0\r\nAccept: text/vnd.wap.wml\r\n\r\n", "HTTPProtocol")]
    ref = None
    for req, _doc in blocks:
        try:
            got = type(testutil.get_testing_protocol(req, cfg)).__name__
        except Exception as e:  # noqa
            return {"confirmed": True, "request": req, "raised": repr(e)}
        exp = S.first_matching(order, req.split("\r\n")[0] + "\r\n", False, waptop,
                               {k.strip().lower(): v for k, _c, v in (l.partition(":") for l in req.split("\r\n")[1:] if l)})
        if got != exp:
            return {"confirmed": True, "request": req, "claimed_by": got, "specification": exp}
    return {"confirmed": None, "note": "corpus agrees with the specification"}


def r_getprotocol(d):
    from pygopherd import testutil
    from pygopherd.protocols import ProtocolMultiplexer
    m = d["model"]

    def env_fn(tls):
        cfg = _config(m)
        content = _bytes(m.get("rfile.content", ""))
        pos = m.get("rfile.pos", 0) or 0
        rfile = io.BytesIO(content[pos:])
        handler = testutil.get_testing_handler(io.BytesIO(), io.BytesIO(), cfg, use_tls=tls)
        handler.rfile = rfile
        req = m.get("request", "")
        return {"request": req if isinstance(req, str) else "", "server": handler.server, "requesthandler": handler,
                "rfile": rfile, "wfile": handler.wfile, "config": cfg,
                "ghost": types.SimpleNamespace(conn_headers=_LazyHeaders(handler))}

    def call_fn(env):
        return ProtocolMultiplexer.getProtocol(env["request"], env["server"], env["requesthandler"], env["rfile"], env["wfile"], env["config"])

    return _native_check(d, env_fn, call_fn)


@realiser("pygopherd/server.py::BaseServer.wrap_socket")
def r_wrap_socket_real(d):
    """Real socket pair: whether a connection is treated as TLS depends on the value of its first byte only, not on
    when that byte arrives; the sniff consumes nothing."""
    import socket, threading, time
    import pygopherd.server as srv

    class Ctx:
        def wrap_socket(self, sock, server_side=False):
            return types.SimpleNamespace(inner=sock, tls=True)

    for first, delay in ((b"\x16\x03\x01", 0.0), (b"/sel\r\n", 0.0), (b"\x16\x03\x01", 2.2), (b"/sel\r\n", 2.2)):
        a, b = socket.socketpair()
        try:
            def client():
                time.sleep(delay)
                try:
                    a.sendall(first)
                except OSError:
                    pass
            t = threading.Thread(target=client, daemon=True)
            t.start()
            server = types.SimpleNamespace(context=Ctx())
            for k in dir(srv.BaseServer):
                if not k.startswith("__") and not hasattr(server, k) and not callable(getattr(srv.BaseServer, k)):
                    setattr(server, k, getattr(srv.BaseServer, k))
            try:
                res = srv.BaseServer.wrap_socket(server, b)
            except Exception as e:  # noqa
                return {"confirmed": True, "scenario": "wrap_socket raised on a live socket", "raised": repr(e)}
            t.join()
            is_tls = getattr(res, "tls", False)
            left = b.recv(16, socket.MSG_PEEK)
            if is_tls != (first[:1] == b"\x16") or left != first:
                return {"confirmed": True, "scenario": "first byte %r sent %.1fs after connect" % (first[:1], delay), "treated_as_tls": is_tls, "bytes_left_readable": repr(left)}
        finally:
            a.close(); b.close()
    return {"confirmed": None, "note": "TLS decision depends on the first byte only"}


def r_wrap_socket(d):
    if d.get("kind") == "standin":
        return r_wrap_socket_real(d)
    import socket
    import pygopherd.server as srv
    m = d["model"]
    pending = _bytes(m.get("sock.pending", "\x16")) or b"\x16"

    class Sock:
        def __init__(self):
            self.pending = pending
            self.consumed = 0
            self.ncalls = 0

        def recv(self, n, flags=0):
            self.ncalls += 1
            data = self.pending[:n]
            if not (flags & socket.MSG_PEEK):
                self.pending = self.pending[len(data):]
                self.consumed += len(data)
            return data

    class Ctx:
        def wrap_socket(self, sock, server_side=False):
            return types.SimpleNamespace(inner=sock)

    results = []
    for ctx in (Ctx(), None):
        sock = Sock()
        server = types.SimpleNamespace(context=ctx)
        env = {"self": server, "sock": sock}
        code, olds = prepare_clause(d["clause"], env)
        try:
            env["result"] = srv.BaseServer.wrap_socket(server, sock)
        except Exception as e:  # noqa
            results.append({"raised": repr(e)})
            continue
        holds = bool(eval_clause(code, olds, env))
        results.append({"context": ctx is not None, "first_byte": pending[:1].hex(), "clause_holds": holds})
        if not holds:
            return {"confirmed": True, "witness": results[-1]}
    return {"confirmed": False, "attempts": results}


# ------------------------------------------------------------------- C01: end-to-end audit replay
def _audit_request(reqbytes, cfg, tls=False):
    """Serve one request with the real server code and record every file-system / process audit event."""
    import sys
    from pygopherd import testutil, logger
    events = []
    active = [True]

    def hook(name, args):
        if not active[0]:
            return
        if name in ("open", "os.listdir", "os.scandir", "os.chdir", "os.remove", "os.rename", "os.mkdir", "subprocess.Popen", "os.exec", "os.posix_spawn", "os.system"):
            try:
                p = args[0]
                if isinstance(p, bytes):
                    p = os.fsdecode(p)
                if isinstance(p, (list, tuple)):
                    p = p[0]
                if isinstance(p, str):
                    events.append((name, p))
            except Exception:
                pass

    if not getattr(_audit_request, "installed", False):
        _audit_request.hooks = []
        sys.addaudithook(lambda n, a: [h(n, a) for h in list(_audit_request.hooks)])
        _audit_request.installed = True
    _audit_request.hooks.append(hook)

    class W(io.BytesIO):
        def close(self):
            pass

    out = W()
    try:
        logger.log = lambda m: None
        h = testutil.get_testing_handler(io.BytesIO(reqbytes), io.BytesIO(), cfg, use_tls=tls)
        h.wfile = out
        try:
            h.handle()
        except Exception as e:  # noqa
            events.append(("exception", repr(e)))
    finally:
        active[0] = False
        _audit_request.hooks.remove(hook)
    return events, out.getvalue()


def _escapes(root, p):
    if not os.path.isabs(p):
        return True  # relative to the process working directory
    n = os.path.normpath(p)
    root = os.path.normpath(root)
    return not (n == root or n.startswith(root.rstrip("/") + "/"))


@realiser("pygopherd/handlers/")
def r_c01_audit(d):
    """Replay for path obligations: feed every selector-like string of the counter-model through the
    real server (Gopher and HTTP syntax) against a scratch root and look for audited file-system
    accesses that resolve outside it."""
    import shutil, tempfile, urllib.parse
    import pygopherd.handlers.base as hb
    import pygopherd.handlers.HandlerMultiplexer as hm
    m = d["model"]
    cands = []
    for k, v in m.items():
        if isinstance(v, str) and v and any(t in k for t in ("selector", "request", "name", "file", "elem")):
            cands.append(v)
    cands += ["/..", "/../", "/a/../..", "/%2e%2e/", "/a|/../..", "/./..", "/..\\..", "/a.zip/../../",
              # compatibility characters that normalise to '.', '..' and '/' (NFKC): U+FF0E, U+2024, U+2025, U+FF0F
              "/\uff0e\uff0e/secret", "/\u2025/secret", "/\u2024\u2024/secret", "/a/\uff0e\uff0e/\uff0e\uff0e/secret", "/\uff0e\uff0e\uff0fsecret",
              "/secret", "/../secret", "/a/../../secret"]
    top = tempfile.mkdtemp(prefix="pyvc-c01-", dir="/var/tmp")
    root = os.path.join(top, "root")
    try:
        os.makedirs(os.path.join(root, "a"))
        open(os.path.join(top, "secret"), "w").write("outside\n")
        open(os.path.join(root, "a", "f.txt"), "w").write("inside\n")
        cfg = _config({})
        cfg.set("pygopherd", "root", root)
        hb.rootpath = None
        hm.rootpath = None
        hm.handlers = None
        seen = []
        for s in cands[:40]:
            sel = s if s.startswith("/") else "/" + s
            reqs = [sel.encode("utf-8", "surrogateescape") + b"\r\n",
                    b"GET " + urllib.parse.quote(sel, errors="surrogateescape").encode() + b" HTTP/1.0\r\n\r\n"]
            for rq in reqs:
                ev, out = _audit_request(rq, cfg)
                bad = [(n, p) for (n, p) in ev if n != "exception" and (p.startswith(root) or not os.path.isabs(p)) and _escapes(root, p)
                       and not p.endswith((".py", ".pyc", "mime.types")) and "pygopherd.conf" not in p]
                if b"outside" in out:
                    bad.append(("response-reveals-outside-content", repr(out[:80])))
                if bad:
                    return {"confirmed": True, "request": repr(rq), "escaping_accesses": bad[:5], "root": root}
                seen.append((repr(rq)[:60], len(ev)))
        return {"confirmed": None, "note": "no escaping access observed for the selectors tried", "tried": seen[:12]}
    finally:
        shutil.rmtree(top, ignore_errors=True)
        hb.rootpath = None
        hm.rootpath = None
        hm.handlers = None


# ------------------------------------------------------------------- C20 / C03: handle() under injected faults
class _FaultyW(io.BytesIO):
    def __init__(self, fail_at, exc):
        super().__init__()
        self.n = 0
        self.fail_at = fail_at
        self.exc = exc

    def write(self, data):
        if self.n == self.fail_at:
            self.n += 1
            raise self.exc
        self.n += 1
        return super().write(data)

    def close(self):
        pass


def _handle_requests(cls):
    name = cls.__name__
    sels = ["/testfile.txt", "/nonexistent", "/", "/testarchive.zip"]
    out = []
    if "Gemini" in name:
        # malformed authorities / ports: answered with a status line, never an escaping exception
        out.extend(["gemini://localhost:70x/testfile.txt\r\n", "gemini://localhost:99999/testfile.txt\r\n", "gemini://localhost:-1/testfile.txt\r\n",
                    "gemini://[::1/testfile.txt\r\n", "gemini://localhost:/testfile.txt\r\n"])
    for s_ in sels:
        if "Gemini" in name:
            out.append("gemini://localhost%s\r\n" % s_)
        elif "Spartan" in name:
            out.append("localhost %s 0\r\n" % s_)
        elif "HTTP" in name or "WAP" in name:
            out.append("GET %s HTTP/1.0\r\n" % s_)
        elif "Plus" in name:
            out.extend(["%s\t+\r\n" % s_, "%s\t!\r\n" % s_, "%s\t$\r\n" % s_])
        else:
            out.append("%s\r\n" % s_)
    return out


def _fd_leak_scenarios(cls, root):
    """Every file opened for a request is closed, also when the client connection fails mid-body."""
    import errno, gc, socket
    from pygopherd import testutil
    import pygopherd.handlers.base as hb
    import pygopherd.handlers.HandlerMultiplexer as hm
    name = cls.__name__
    if "Gemini" in name:
        req = "gemini://localhost/big.bin\r\n"
    elif "Spartan" in name:
        req = "localhost /big.bin 0\r\n"
    elif "HTTP" in name or "WAP" in name:
        req = "GET /big.bin HTTP/1.0\r\n"
    elif "Plus" in name:
        req = "/big.bin\t+\r\n"
    else:
        req = "/big.bin\r\n"

    def fds():
        out = {}
        for f in os.listdir("/proc/self/fd"):
            try:
                out[f] = os.readlink("/proc/self/fd/" + f)
            except OSError:
                pass
        return out

    for k in (1, 2, 3, 6):
        hb.rootpath = None; hm.rootpath = None; hm.handlers = None
        cfg = testutil.get_config()
        cfg.set("pygopherd", "root", root)
        tls = getattr(cls, "secure", False)
        h = testutil.get_testing_handler(io.BytesIO(), io.BytesIO(), cfg, use_tls=tls)
        w = _FaultyW(k, BrokenPipeError(errno.EPIPE, "Broken pipe"))
        proto = cls(req, h.server, h, io.BytesIO(b"\r\n"), w, cfg)
        before = fds()
        try:
            proto.canhandlerequest()
            proto.handle()
        except BaseException:  # noqa
            pass
        del proto
        gc.collect()
        after = fds()
        left = {f: p for f, p in after.items() if f not in before and root in p}
        if left:
            return {"confirmed": True, "request": req, "fail_at_write": k, "descriptors_left_open": left}
    return None


def r_handle_faults(d):
    """Replay for handle(): drive the real protocol with a client socket that fails at the k-th write with a
    one-argument timeout or a two-argument EPIPE, and see what leaves handle()."""
    import errno, socket
    from pygopherd import testutil, logger
    import pygopherd.handlers.base as hb
    import pygopherd.handlers.HandlerMultiplexer as hm
    import pygopherd.handlers.base as hb
    import pygopherd.handlers.HandlerMultiplexer as hm
    mod, cls, meth = _class_of(d["function"])
    if cls is not None and cls.__name__ == "BaseGopherProtocol":
        # the abstract base class ("renderobjinfo MUST BE OVERRIDDEN") is never selected by the protocol multiplexer:
        # a method defined on it is exercised through its first concrete subclass
        from pygopherd.protocols.rfc1436 import GopherProtocol as cls  # noqa: F811
    logs = []
    logger.log = lambda m: logs.append(m)
    findings = []
    import gc, shutil, tempfile
    big = tempfile.mkdtemp(prefix="pyvc-c20-", dir="/var/tmp")
    try:
        open(os.path.join(big, "big.bin"), "wb").write(b"\xa5" * (1 << 20))
        leak = _fd_leak_scenarios(cls, big)
        if leak:
            return leak
    finally:
        shutil.rmtree(big, ignore_errors=True)
        hb.rootpath = None; hm.rootpath = None; hm.handlers = None
    for req in _handle_requests(cls):
        for mk in (lambda: socket.timeout("timed out"), lambda: BrokenPipeError(errno.EPIPE, "Broken pipe")):
            for k in range(0, 8):
                hb.rootpath = None; hm.rootpath = None; hm.handlers = None
                cfg = testutil.get_config()
                cfg.set("handlers.ZIP.ZIPHandler", "enabled", "true")
                tls = getattr(cls, "secure", False)
                h = testutil.get_testing_handler(io.BytesIO(), io.BytesIO(), cfg, use_tls=tls)
                injected = mk()
                w = _FaultyW(k, injected)
                rfile = io.BytesIO(b"\r\n")
                proto = cls(req, h.server, h, rfile, w, cfg)
                try:
                    proto.canhandlerequest()
                    proto.handle()
                    raised = None
                except BaseException as e:  # noqa
                    raised = e
                if raised is None:
                    # the protocol swallowed the failure itself: it must have logged it under the failure's own class ...
                    fired = w.n > k
                    own = type(injected).__name__
                    if fired and d["kind"] == "standin" and not any(("EXCEPTION " + own) in l for l in logs):
                        return {"confirmed": True, "request": req, "fail_at_write": k, "injected": repr(injected), "log": logs[-3:],
                                "note": "the write failure was swallowed without a log record under its own error class"}
                    # ... and the log must not show a foreign class
                    bad = [l for l in logs if "EXCEPTION" in l and not any(t in l for t in ("FileNotFound", "TimeoutError", "BrokenPipeError", "timeout", "OSError", "ConnectionResetError"))]
                    if bad and d["kind"] in ("standin", "raises", "on_raise"):
                        return {"confirmed": True, "request": req, "fail_at_write": k, "injected": repr(injected), "log": bad[:2], "note": "the failure was logged under a foreign error class"}
                    del logs[:]
                    continue
                del logs[:]
                foreign = not isinstance(raised, OSError)
                not_injected = isinstance(raised, OSError) and raised is not injected and type(raised) is not type(injected)
                if (d["kind"] in ("raises", "standin") and foreign) or (d["kind"] in ("on_raise", "standin") and (foreign or not_injected)):
                    return {"confirmed": True, "request": req, "fail_at_write": k, "injected": repr(injected), "escaped": repr(raised)}
                findings.append((req, k, repr(raised)))
    return {"confirmed": None, "note": "no foreign exception escaped handle() under the injected faults tried", "seen": findings[:6]}


for _mod, _cls in (("base.py", "BaseGopherProtocol"), ("gopherp.py", "GopherPlusProtocol"), ("http.py", "HTTPProtocol"), ("gemini.py", "GeminiProtocol"), ("spartan.py", "SpartanProtocol")):
    REALISERS.append(("pygopherd/protocols/%s::%s.handle" % (_mod, _cls), r_handle_faults))


@realiser("pygopherd/handlers/base.py::VFS_Real.copyto")
def r_copyto(d):
    """Copy real files of many sizes (around every multiple of the 4096-byte block) through the real
    VFS_Real.copyto and compare with the file bytes."""
    import random, shutil, tempfile
    import pygopherd.handlers.base as hb
    top = tempfile.mkdtemp(prefix="pyvc-c04-", dir="/var/tmp")
    try:
        cfg = _config({})
        cfg.set("pygopherd", "root", top)
        hb.rootpath = None
        vfs = hb.VFS_Real(cfg)
        rnd = random.Random(int(os.environ.get("VERIF_SEED", "0") or 0))
        for n in (0, 1, 2, 4095, 4096, 4097, 8191, 8192, 8193, 12288, 20000):
            data = bytes(rnd.getrandbits(8) for _ in range(n))
            with open(os.path.join(top, "f.bin"), "wb") as fh:
                fh.write(data)
            out = io.BytesIO(b"PRE")
            out.seek(0, 2)
            try:
                vfs.copyto("/f.bin", out)
            except Exception as e:  # noqa
                return {"confirmed": True, "size": n, "raised": repr(e)}
            if out.getvalue() != b"PRE" + data:
                return {"confirmed": True, "size": n, "copied_bytes": len(out.getvalue()) - 3, "note": "bytes written differ from the file content"}
        return {"confirmed": None, "note": "copy exact for all sizes tried"}
    finally:
        shutil.rmtree(top, ignore_errors=True)
        hb.rootpath = None


# ------------------------------------------------------------------- C10/C11/C12: directory handler scenarios
def glob_cache(top, cachefile):
    import glob
    return sorted(glob.glob(os.path.join(top, os.path.basename(cachefile) + "*")))


@realiser("pygopherd/handlers/dir.py::DirHandler.")
def r_dir(d):
    """Scenario replay on a scratch directory with the real DirHandler/UMNDirHandler: every prefix of a real
    cache file and a zero-filled one (C11), stale/fresh cache and hit-does-not-rewrite (C10), unservable
    children (C12)."""
    import pickle, shutil, tempfile, time
    import pygopherd.handlers.base as hb
    import pygopherd.handlers.HandlerMultiplexer as hm
    from pygopherd.handlers.dir import DirHandler
    from pygopherd.handlers.UMN import UMNDirHandler
    from pygopherd import logger
    logger.log = lambda m: None
    top = tempfile.mkdtemp(prefix="pyvc-dir-", dir="/var/tmp")
    name = d["obligation"]
    try:
        for f in ("a.txt", "b.txt", "c.txt"):
            open(os.path.join(top, f), "w").write(f)
        cfg = _config({})
        cfg.set("pygopherd", "root", top)
        cfg.set("handlers.dir.DirHandler", "cachetime", "180")

        def mk(cls=DirHandler):
            hb.rootpath = None; hm.rootpath = None; hm.handlers = None
            st = os.stat(top)
            from pygopherd import testutil as _tu
            try:
                proto = _tu.get_testing_protocol("/\r\n", cfg)
            except Exception:  # noqa
                proto = None
            return cls("/", "", proto, cfg, st)

        cachefile = os.path.join(top, cfg.get("handlers.dir.DirHandler", "cachefile"))
        h = mk(); h.prepare(); h.getdirlist()
        good = open(cachefile, "rb").read() if os.path.exists(cachefile) else b""
        if "loadcache" in name or "prepare" in name or "savecache" in name:
            # C11: any prefix of the cache / zero fill must be harmless
            for n in list(range(0, len(good))) + [-1]:
                data = good[:n] if n >= 0 else b"\\0" * len(good)
                open(cachefile, "wb").write(data)
                for cls in (DirHandler, UMNDirHandler):
                    h = mk(cls)
                    try:
                        h.prepare()
                        names = sorted(e.selector for e in h.getdirlist())
                    except Exception as e:  # noqa
                        return {"confirmed": True, "scenario": "cache file cut to %d of %d bytes" % (n, len(good)), "handler": cls.__name__, "raised": repr(e)}
                    if names != ["/a.txt", "/b.txt", "/c.txt"]:
                        return {"confirmed": True, "scenario": "cache file cut to %d bytes" % n, "listing": names}
            # C11: a writer killed in the middle of writing the cache (after k bytes of the pickle): whatever it leaves in the
            # directory, the next listing is the correct, complete one
            for k in (0, 1, 7, 40, max(len(good) - 1, 0)):
                for f_ in glob_cache(top, cachefile):
                    os.unlink(f_)
                before_ = set(os.listdir(top))
                pid = os.fork()
                if pid == 0:
                    try:
                        real_dump = pickle.dump

                        def dying_dump(obj, fp, *a, **kw):
                            data_ = pickle.dumps(obj, *a, **kw)
                            fp.write(data_[:k])
                            fp.flush()
                            os._exit(9)
                        pickle.dump = dying_dump
                        hk = mk(); hk.prepare(); hk.getdirlist()
                    finally:
                        os._exit(8)
                os.waitpid(pid, 0)
                left = sorted(set(os.listdir(top)) - before_)
                for cls in (DirHandler, UMNDirHandler):
                    h = mk(cls)
                    try:
                        h.prepare()
                        names = sorted(e.selector for e in h.getdirlist())
                    except Exception as e:  # noqa
                        return {"confirmed": True, "scenario": "the writer of the cache was killed after %d bytes; the next request raised" % k, "handler": cls.__name__, "raised": repr(e), "left behind": left}
                    if names != ["/a.txt", "/b.txt", "/c.txt"]:
                        return {"confirmed": True, "scenario": "the writer of the cache was killed after %d bytes; the next listing is not the directory's" % k, "listing": names, "left behind": left}
                for f_ in left:
                    if not f_.startswith(cfg.get("handlers.dir.DirHandler", "cachefile")):
                        try:
                            os.unlink(os.path.join(top, f_))
                        except OSError:
                            pass
            for f_ in glob_cache(top, cachefile):
                os.unlink(f_)
            h = mk(); h.prepare(); h.getdirlist()
            # C11: with a history (an earlier generation of the cache, a directory that changed since) a damaged cache still
            # means "regenerate", never "something older"
            for f_ in glob_cache(top, cachefile):
                os.unlink(f_)
            h = mk(); h.prepare(); h.getdirlist()
            for f_ in glob_cache(top, cachefile):
                old_ = time.time() - 10000
                os.utime(f_, (old_, old_))
            open(os.path.join(top, "d.txt"), "w").write("d")
            os.unlink(os.path.join(top, "a.txt"))
            try:
                h = mk(); h.prepare(); h.getdirlist()
                good2 = open(cachefile, "rb").read() if os.path.exists(cachefile) else b""
                for n in (0, 1, len(good2) // 3, len(good2) // 2, max(len(good2) - 1, 0), -1):
                    open(cachefile, "wb").write(good2[:n] if n >= 0 else b"\0" * len(good2))
                    for cls in (DirHandler, UMNDirHandler):
                        h = mk(cls)
                        try:
                            h.prepare()
                            names = sorted(e.selector for e in h.getdirlist())
                        except Exception as e:  # noqa
                            return {"confirmed": True, "scenario": "second-generation cache cut to %d bytes" % n, "handler": cls.__name__, "raised": repr(e)}
                        if names != ["/b.txt", "/c.txt", "/d.txt"]:
                            return {"confirmed": True, "scenario": "the cache (second generation, the directory changed since the first) cut to %d bytes: the listing is not the current directory" % n, "listing": names}
            finally:
                open(os.path.join(top, "a.txt"), "w").write("a.txt")
                os.unlink(os.path.join(top, "d.txt"))
                for f_ in glob_cache(top, cachefile):
                    os.unlink(f_)
            # C10: a stale cache is never used
            open(cachefile, "wb").write(pickle.dumps([], 1))
            old = time.time() - 10000
            os.utime(cachefile, (old, old))
            h = mk(); h.prepare()
            if h.fromcache or len(h.fileentries) != 3:
                return {"confirmed": True, "scenario": "cache older than its lifetime was used", "entries": len(h.fileentries)}
            # ... not even when regenerating the listing fails
            import errno as _errno
            real_ld = os.listdir

            def failing_listdir(p_, real=real_ld):
                if os.path.realpath(os.fsdecode(p_)) == os.path.realpath(top):
                    raise OSError(_errno.EIO, "Input/output error")
                return real(p_)

            os.listdir = failing_listdir
            try:
                h = mk()
                try:
                    h.prepare()
                    used = bool(h.fromcache)
                except OSError:
                    used = False
            finally:
                os.listdir = real_ld
            if used:
                return {"confirmed": True, "scenario": "a cache file older than its lifetime was served because reading the directory failed (EIO)"}
            # and a fresh one is (with an empty pickled list the listing is empty)
        if "processLinkFile" in name or "getLinkItem" in name or "prepare" in name or "standin" in d.get("kind", ""):
            # metadata edits must show in a regenerated listing (lifetime 0)
            cfg.set("handlers.dir.DirHandler", "cachetime", "0")
            if os.path.exists(cachefile):
                os.unlink(cachefile)
            open(os.path.join(top, ".Links"), "w").write("Name=Old Mirror\nType=1\nPath=/old\nHost=h.example\nPort=70\n")
            h = mk(UMNDirHandler); h.prepare()
            n1 = sorted(str(e.name) for e in h.fileentries)
            open(os.path.join(top, ".Links"), "w").write("Name=New Mirror\nType=1\nPath=/old\nHost=h.example\nPort=70\n")
            h = mk(UMNDirHandler); h.prepare()
            n2 = sorted(str(e.name) for e in h.fileentries)
            os.unlink(os.path.join(top, ".Links"))
            cfg.set("handlers.dir.DirHandler", "cachetime", "180")
            if "New Mirror" not in n2 or "Old Mirror" in n2:
                return {"confirmed": True, "scenario": "a link file rewritten between two regenerated listings (lifetime 0) is not re-read", "second_listing": n2}
        if "loadcache" in name or "savecache" in name or "standin" in d.get("kind", ""):
            # history independence with caching on: HTTP listing, Gopher+ listing (from the cache), HTTP listing again
            import re as _re
            if os.path.exists(cachefile):
                os.unlink(cachefile)
            os.makedirs(os.path.join(top, "subdir"), exist_ok=True)
            hb.rootpath = None; hm.rootpath = None; hm.handlers = None
            strip = lambda b: _re.sub(rb"Last-Modified:[^\r]*\r\n", b"", b)
            r1, _l = _serve(b"GET / HTTP/1.0\r\n\r\n", cfg)
            _serve(b"/\t$\r\n", cfg)
            r3, _l = _serve(b"GET / HTTP/1.0\r\n\r\n", cfg)
            g1, _l = _serve(b"/\r\n", cfg)
            _serve(b"/\t$\r\n", cfg)
            g2, _l = _serve(b"/\r\n", cfg)
            os.rmdir(os.path.join(top, "subdir"))
            if os.path.exists(cachefile):
                os.unlink(cachefile)
            if strip(r1) != strip(r3) or g1 != g2:
                return {"confirmed": True, "scenario": "the answer to a listing request changed after a Gopher+ listing of the same directory was served from the cache (history dependence)"}
            # whichever protocol wrote the cache, every reader gets what it would have generated itself
            reqs = {"gopher": b"/\r\n", "gopher+": b"/\t$\r\n", "http": b"GET / HTTP/1.0\r\n\r\n"}
            os.makedirs(os.path.join(top, "subdir"), exist_ok=True)
            open(os.path.join(top, "zero.bin"), "wb").close()
            open(os.path.join(top, ".Links"), "w").write("Name=An info line\nType=i\nPath=fake\nHost=(NULL)\nPort=0\n\n"
                                                         "Name=Second by number\nType=1\nPath=/two\nHost=h.example\nPort=70\nNumb=2\n\n"
                                                         "Name=Last, negative\nType=1\nPath=/neg\nHost=h.example\nPort=70\nNumb=-1\n\n"
                                                         "Path=./c.txt\nNumb=1\n")
            fresh = {}
            for n_, rq in reqs.items():
                if os.path.exists(cachefile):
                    os.unlink(cachefile)
                fresh[n_] = strip(_serve(rq, cfg)[0])
            for wn, wrq in reqs.items():
                for rn, rrq in reqs.items():
                    if os.path.exists(cachefile):
                        os.unlink(cachefile)
                    _serve(wrq, cfg)
                    got = strip(_serve(rrq, cfg)[0])
                    if got != fresh[rn]:
                        return {"confirmed": True, "scenario": "cache written by a %s request, read by a %s request: the listing differs from the one the reader generates itself" % (wn, rn),
                                "from cache": repr(got[:300]), "fresh": repr(fresh[rn][:300])}
            os.rmdir(os.path.join(top, "subdir"))
            os.unlink(os.path.join(top, "zero.bin"))
            os.unlink(os.path.join(top, ".Links"))
            if os.path.exists(cachefile):
                os.unlink(cachefile)
            # another spelling of the same directory must not change what the cache holds for it
            if os.path.exists(cachefile):
                os.unlink(cachefile)
            hb.rootpath = None; hm.rootpath = None; hm.handlers = None
            g0, _l = _serve(b"/\r\n", cfg)
            if os.path.exists(cachefile):
                os.unlink(cachefile)
            for other in (b"/.\r\n", b"/./\r\n", b"//\r\n"):
                _serve(other, cfg)
                g3, _l = _serve(b"/\r\n", cfg)
                if g3 != g0:
                    return {"confirmed": True, "scenario": "after the request %r the listing of / (served within the cache lifetime) is no longer the directory's listing" % other,
                            "fresh": repr(g0[:160]), "after": repr(g3[:160])}
                if os.path.exists(cachefile):
                    os.unlink(cachefile)
            os.makedirs(os.path.join(top, "sub3"), exist_ok=True)
            open(os.path.join(top, "sub3", "inner.txt"), "w").write("i")
            sub_cache = os.path.join(top, "sub3", os.path.basename(cachefile))
            s0, _l = _serve(b"/sub3\r\n", cfg)
            for other in (b"/sub3//\r\n", b"/sub3/.\r\n", b"/sub3///\r\n", b"GET /sub3// HTTP/1.0\r\n\r\n", b"/sub3/\r\n"):
                if os.path.exists(sub_cache):
                    os.unlink(sub_cache)
                _serve(other, cfg)
                s3, _l = _serve(b"/sub3\r\n", cfg)
                if s3 != s0:
                    return {"confirmed": True, "scenario": "after the request %r the listing of /sub3 (served within the cache lifetime) is no longer the directory's listing" % other,
                            "fresh": repr(s0[:160]), "after": repr(s3[:160])}
            import shutil as _sh3
            _sh3.rmtree(os.path.join(top, "sub3"), ignore_errors=True)
            if os.path.exists(cachefile):
                os.unlink(cachefile)
        if "savecache" in name or "getdirlist" in name or "standin" in d.get("kind", ""):
            # a hit serves exactly the cached listing (also when the directory changed meanwhile) and leaves the cache file alone
            if os.path.exists(cachefile):
                os.unlink(cachefile)
            for cls in (DirHandler, UMNDirHandler):
                h = mk(cls); h.prepare(); first = [e.selector for e in h.getdirlist()]
                past = time.time() - 60
                os.utime(cachefile, (past, past))
                m1 = os.stat(cachefile).st_mtime_ns
                os.rename(os.path.join(top, "b.txt"), os.path.join(top, "b.moved"))
                try:
                    h = mk(cls); h.prepare(); second = [e.selector for e in h.getdirlist()]
                finally:
                    os.rename(os.path.join(top, "b.moved"), os.path.join(top, "b.txt"))
                if second != first or os.stat(cachefile).st_mtime_ns != m1:
                    return {"confirmed": True, "scenario": "a listed file disappeared while the cache entry was fresh: the hit must serve the cached listing and must not rewrite the cache", "handler": cls.__name__,
                            "cached": first, "served": second, "cache rewritten": os.stat(cachefile).st_mtime_ns != m1}
                os.unlink(cachefile)
            h = mk(); h.prepare(); h.getdirlist()
            m0 = os.stat(cachefile).st_mtime_ns
            past = time.time() - 60
            os.utime(cachefile, (past, past))
            m1 = os.stat(cachefile).st_mtime_ns
            h = mk(); h.prepare(); h.getdirlist()
            if h.fromcache and os.stat(cachefile).st_mtime_ns != m1:
                return {"confirmed": True, "scenario": "a cache hit rewrote the cache file (its age was refreshed)"}
        if "prepare" in name or "standin" in d.get("kind", ""):
            # C07: the order of a listing does not depend on the order in which the OS enumerates the directory
            import itertools, random
            if os.path.exists(cachefile):
                os.unlink(cachefile)
            cfg.set("handlers.dir.DirHandler", "cachetime", "0")
            for f in ("README", "ReadMe", "readme", "Zebra", "apple", "notes.txt", "notes.html", "notes.md"):
                open(os.path.join(top, f), "w").write(f)
            # two files sharing a .cap title: they tie completely in the UMN order
            os.makedirs(os.path.join(top, ".cap"), exist_ok=True)
            for f in ("r1.txt", "r2.txt", "r3.txt"):
                open(os.path.join(top, f), "w").write(f)
                open(os.path.join(top, ".cap", f), "w").write("Name=Same title\n")
            # entries that tie on Numb= but not on their title, coming from different link files
            for i_, lf in enumerate((".linksA", ".linksB", ".linksC")):
                open(os.path.join(top, lf), "w").write("".join("Name=%s%d\nType=1\nPath=/remote%d%d\nHost=h.example\nPort=70\nNumb=%d\n\n" % ("TQK"[i_], n_, i_, n_, n_) for n_ in (1, 2, -3)))
            real_listdir = os.listdir
            names = real_listdir(top)
            orders = [sorted(names), sorted(names, reverse=True)] + [random.Random(k).sample(names, len(names)) for k in range(12)]
            try:
                for cls in (DirHandler, UMNDirHandler):
                    seen = set()
                    for o in orders:
                        os.listdir = lambda p, o=o, real=real_listdir: (([os.fsencode(x) for x in o] if isinstance(p, bytes) else list(o))
                                                                        if os.path.realpath(os.fsdecode(p)) == os.path.realpath(top) else real(p))
                        h = mk(cls); h.prepare()
                        seen.add(tuple(e.selector for e in h.getdirlist()))
                    if len(seen) != 1:
                        return {"confirmed": True, "scenario": "the same directory enumerated by the OS in different orders gives different listings", "handler": cls.__name__, "listings": [list(x) for x in list(seen)[:2]]}
            finally:
                os.listdir = real_listdir
                for f in ("README", "ReadMe", "readme", "Zebra", "apple", "notes.txt", "notes.html", "notes.md", ".linksA", ".linksB", ".linksC", "r1.txt", "r2.txt", "r3.txt"):
                    os.unlink(os.path.join(top, f))
                import shutil as _sh9
                _sh9.rmtree(os.path.join(top, ".cap"), ignore_errors=True)
            # C07: a .cap entry that cannot be read hides nothing; dot-directories stay retrievable by exact selector
            os.makedirs(os.path.join(top, ".cap", "a.txt"), exist_ok=True)      # .cap/a.txt is a directory: unreadable as a cap file
            os.makedirs(os.path.join(top, ".archive", "2019"), exist_ok=True)
            open(os.path.join(top, ".archive", "2019", "old.txt"), "w").write("o")
            try:
                hb.rootpath = None; hm.rootpath = None; hm.handlers = None
                out, _l = _serve(b"/\r\n", cfg)
                if b"\t/a.txt\t" not in out:
                    return {"confirmed": True, "scenario": "a.txt has an unreadable .cap/a.txt (a directory): it must still be listed", "listing": repr(out[:300])}
                for sel_ in (b"/.archive", b"/.archive/2019", b"/.cap"):
                    out, _l = _serve(sel_ + b"\r\n", cfg)
                    if out.startswith(b"3") or not out:
                        return {"confirmed": True, "scenario": "the dot-directory %r is kept out of listings but must be retrievable by exact selector" % sel_, "response": repr(out[:200])}
            finally:
                import shutil as _sh4
                _sh4.rmtree(os.path.join(top, ".cap"), ignore_errors=True)
                _sh4.rmtree(os.path.join(top, ".archive"), ignore_errors=True)
            # C08: an override (a .cap file, a Path=./name block) touches only the fields it sets: the file's sidecar abstract stays
            ov = os.path.join(top, "ovr")
            os.makedirs(os.path.join(ov, ".cap"), exist_ok=True)
            for n_ in ("plain.txt", "capped.txt", "named.txt", "own.txt"):
                open(os.path.join(ov, n_), "w").write("x\n")
                open(os.path.join(ov, n_ + ".abstract"), "w").write("Sidecar abstract of %s\n" % n_)
            open(os.path.join(ov, ".cap", "capped.txt"), "w").write("Name=Capped title\nNumb=2\n")
            # a malformed override (non-numeric Port=, Type= without a character, unparsable Numb=) is ignored, it does not fail the directory
            open(os.path.join(ov, ".cap", "plain.txt"), "w").write("Port=notanumber\nType=\nNumb=x\n")
            open(os.path.join(ov, ".names"), "w").write("Name=Named title\nPath=./named.txt\n\nName=Own title\nPath=./own.txt\nAbstract=Abstract given by the block\n")
            prev_ae = cfg.get("pygopherd", "abstract_entries")
            try:
                cfg.set("pygopherd", "abstract_entries", "always")
                hb.rootpath = None; hm.rootpath = None; hm.handlers = None
                out, _l = _serve(b"/ovr\r\n", cfg)
                text_ = out.decode("utf-8", "replace")
                for want in ("Sidecar abstract of plain.txt", "Sidecar abstract of capped.txt", "Sidecar abstract of named.txt", "Abstract given by the block", "Capped title", "Named title", "Own title"):
                    if want not in text_:
                        return {"confirmed": True, "scenario": "a .cap file / Path=./name block that sets only Name (and Numb) must leave the file's sidecar abstract in place; expected %r in the listing of /ovr" % want,
                                "listing": repr(text_[:900])}
                if "Sidecar abstract of own.txt" in text_:
                    return {"confirmed": True, "scenario": "a block that sets Abstract= overrides the sidecar abstract", "listing": repr(text_[:900])}
            finally:
                cfg.set("pygopherd", "abstract_entries", prev_ae)
                import shutil as _sh10
                _sh10.rmtree(ov, ignore_errors=True)
            # C08: a directory holding nothing but link files lists its link entries; the order of lines inside a block does not matter
            os.makedirs(os.path.join(top, "services"), exist_ok=True)
            open(os.path.join(top, "services", ".Links"), "w").write("Name=Finger information\nType=0\nPath=lindner\nHost=mudhoney.example\nPort=79\n\n"
                                                                     "Name=Same, host first\nType=0\nHost=mudhoney.example\nPort=79\nPath=lindner\n")
            open(os.path.join(top, "services", "draft.txt~"), "w").write("ignored")
            try:
                hb.rootpath = None; hm.rootpath = None; hm.handlers = None
                out, _l = _serve(b"/services\r\n", cfg)
                ll = [l.split(b"\t") for l in out.split(b"\r\n") if l and l != b"."]
                if len(ll) != 2 or any(l[1:4] != [b"lindner", b"mudhoney.example", b"79"] for l in ll):
                    return {"confirmed": True, "scenario": "a directory with only a .Links file (two blocks to another host, Path= before and after Host=)", "listing": repr(out[:300])}
            finally:
                import shutil as _sh5
                _sh5.rmtree(os.path.join(top, "services"), ignore_errors=True)
            # C08: '~/' spelling, comment headers and blank lines between blocks, hiding by object not by selector
            os.makedirs(os.path.join(top, "pub"), exist_ok=True)
            for f in ("secret.txt", "public.txt", "fred.txt", "keep.txt"):
                open(os.path.join(top, "pub", f), "w").write(f)
            open(os.path.join(top, "pub", ".names"), "w").write("# a comment header\n\nPath=~/secret.txt\nType=X\n\n\nPath=~/public.txt\nName=Public title\n\nPath=./fred.txt\nType=X\n\n"
                                                                "Name=Fred elsewhere\nType=0\nPath=/pub/fred.txt\nHost=other.example\nPort=70\n")
            try:
                hb.rootpath = None; hm.rootpath = None; hm.handlers = None
                out, _l = _serve(b"/pub\r\n", cfg)
                rows = [l.split(b"\t") for l in out.split(b"\r\n") if l and l != b"."]
                names_ = sorted(r[0][1:].decode() for r in rows)
                sels_ = sorted((r[1].decode(), r[2].decode()) for r in rows)
                want_names = sorted(["Public title", "Fred elsewhere", "keep.txt"])
                if names_ != want_names or ("/pub/fred.txt", "other.example") not in sels_ or any("~" in s_[0] for s_ in sels_):
                    return {"confirmed": True, "scenario": ".names with a comment header, blank lines, '~/' paths, a hidden ./fred.txt and a link to /pub/fred.txt on another host", "listing": repr(out[:400]), "expected names": want_names}
            finally:
                import shutil as _sh6
                _sh6.rmtree(os.path.join(top, "pub"), ignore_errors=True)
            # C12: a directory whose only entries are unservable lists as empty, it is not an error
            os.makedirs(os.path.join(top, "onlybad"), exist_ok=True)
            os.symlink("/nonexistent/x", os.path.join(top, "onlybad", "dangling"))
            open(os.path.join(top, "onlybad", "draft.txt~"), "w").write("ignored")
            try:
                hb.rootpath = None; hm.rootpath = None; hm.handlers = None
                out, logs = _serve(b"/onlybad\r\n", cfg)
                if out.startswith(b"3") or any("EXCEPTION" in l and "FileNotFound: '/onlybad/" not in l for l in logs):
                    return {"confirmed": True, "scenario": "a directory holding only a dangling link (and an ignored file) is answered with an error instead of an empty listing", "response": repr(out[:200]), "log": logs[-1:]}
            finally:
                import shutil as _sh7
                _sh7.rmtree(os.path.join(top, "onlybad"), ignore_errors=True)
            # C10: an expired cache is never used (whatever the directory's own mtime, whatever a link file says); lifetime 0 = always current
            os.makedirs(os.path.join(top, "life"), exist_ok=True)
            open(os.path.join(top, "life", "a.txt"), "w").write("a")
            os.makedirs(os.path.join(top, "life", ".cap"), exist_ok=True)
            open(os.path.join(top, "life", ".cap", "a.txt"), "w").write("Name=Old title\n")
            open(os.path.join(top, "life", ".Links"), "w").write("Name=Remote\nType=1\nPath=/r\nHost=h.example\nPort=70\nTTL=3600\n")
            life_cache = os.path.join(top, "life", os.path.basename(cachefile))
            try:
                cfg.set("handlers.dir.DirHandler", "cachetime", "50")
                hb.rootpath = None; hm.rootpath = None; hm.handlers = None
                _serve(b"/life\r\n", cfg)
                for k_ in range(2):   # regenerate once more so that the cache file is rewritten, then edit in place
                    if os.path.exists(life_cache):
                        old_ = time.time() - 1000
                        os.utime(life_cache, (old_, old_))
                    _serve(b"/life\r\n", cfg)
                open(os.path.join(top, "life", ".cap", "a.txt"), "w").write("Name=New title\n")
                dpast = time.time() - 5000
                os.utime(os.path.join(top, "life"), (dpast, dpast))          # the directory itself looks untouched
                if os.path.exists(life_cache):
                    old_ = time.time() - 1000
                    os.utime(life_cache, (old_, old_))                        # the cache entry is older than its lifetime
                out, _l = _serve(b"/life\r\n", cfg)
                if b"New title" not in out:
                    return {"confirmed": True, "scenario": "a cache entry older than its lifetime was used (a .cap file had been edited in place; the directory's own mtime is older than the cache)", "listing": repr(out[:300])}
                cfg.set("handlers.dir.DirHandler", "cachetime", "0")
                _serve(b"/life\r\n", cfg)
                open(os.path.join(top, "life", "new.txt"), "w").write("n")
                out, _l = _serve(b"/life\r\n", cfg)
                if b"new.txt" not in out:
                    return {"confirmed": True, "scenario": "lifetime 0: a file created between two requests is missing from the second listing (the directory has a link block with TTL=3600)", "listing": repr(out[:300])}
            finally:
                cfg.set("handlers.dir.DirHandler", "cachetime", "0")
                import shutil as _sh8
                _sh8.rmtree(os.path.join(top, "life"), ignore_errors=True)
            # C07: exactly the entries that are neither dot-files nor matched by the configured ignore pattern, at the root
            # and below it (the pattern is matched against <directory selector>/<name>)
            import re as _re2
            patt = cfg.get("handlers.dir.DirHandler", "ignorepatt")
            cand = ["lib", "bin", "etc", "dev", "lost+found", "gophermap", "robots.txt", "nohup.out", "veronica.ctl", "core", "foo~", "x.abstract", "y.ask", "keep.txt", "library", "bin2",
                    "Bin", "LIB", "ROBOTS.TXT", "Nohup.out", "Gophermap", "model.3D", "NOTES.ABSTRACT", "Lost+Found"]
            os.makedirs(os.path.join(top, "sub2"), exist_ok=True)
            for base_, dir_ in (("", top), ("/sub2", os.path.join(top, "sub2"))):
                for f in cand:
                    open(os.path.join(dir_, f), "w").write(f)
            try:
                for base_, dir_ in (("", top), ("/sub2", os.path.join(top, "sub2"))):
                    for cls in (DirHandler, UMNDirHandler):
                        hb.rootpath = None; hm.rootpath = None; hm.handlers = None
                        from pygopherd import testutil as _tu2
                        h = cls(base_ or "/", "", _tu2.get_testing_protocol((base_ or "/") + "\r\n", cfg), cfg, os.stat(dir_))
                        h.prepare()
                        got = sorted(e.selector for e in h.getdirlist())
                        want = sorted(base_ + "/" + f for f in os.listdir(dir_) if not f.startswith(".") and not _re2.search(patt, base_ + "/" + f))
                        if got != want:
                            return {"confirmed": True, "scenario": "listing of %s vs. the entries neither hidden nor matched by ignorepatt" % (base_ or "/"), "handler": cls.__name__,
                                    "listed but should be ignored": sorted(set(got) - set(want)), "missing": sorted(set(want) - set(got))}
            finally:
                for base_, dir_ in (("", top), ("/sub2", os.path.join(top, "sub2"))):
                    for f in cand:
                        os.unlink(os.path.join(dir_, f))
                import shutil as _sh2
                _sh2.rmtree(os.path.join(top, "sub2"), ignore_errors=True)
            cfg.set("handlers.dir.DirHandler", "cachetime", "180")
        if "prep_entries" in name or "prep_initfiles" in name:
            if os.path.exists(cachefile):
                os.unlink(cachefile)
            os.symlink("/nonexistent/target", os.path.join(top, "dangling"))
            open(os.path.join(top, "x..y"), "w").write("z")
            os.mkfifo(os.path.join(top, "fifo"))
            os.symlink("loop%s", os.path.join(top, "loop%s"))          # ELOOP, '%' in the name
            os.symlink("a.txt/below", os.path.join(top, "100%_mirror"))  # ENOTDIR
            os.symlink("/nonexistent/b", os.path.join(top, "b.link"))    # dangling, sorts between a.txt and b.txt
            os.symlink(".loopdot", os.path.join(top, ".loopdot"))        # ELOOP on a dot-named entry
            os.symlink("a.txt/below", os.path.join(top, ".names"))       # ENOTDIR on a would-be link file
            for cls in (DirHandler, UMNDirHandler):
                h = mk(cls)
                try:
                    h.prepare()
                    names = sorted(e.selector for e in h.fileentries)
                except Exception as e:  # noqa
                    return {"confirmed": True, "scenario": "directory with a dangling link, a fifo and a name containing '..'", "handler": cls.__name__, "raised": repr(e)}
                if not {"/a.txt", "/b.txt", "/c.txt"} <= set(names):
                    return {"confirmed": True, "scenario": "servable entries missing", "listing": names}
            # an entry that vanishes / becomes unreadable after the directory was enumerated (stat failing with ENOENT / EACCES)
            import errno as _e2
            real_stat = hb.VFS_Real.stat
            for err in (_e2.ENOENT, _e2.EACCES):
                for cls in (DirHandler, UMNDirHandler):
                    def failing_stat(self_, selector, real=real_stat, err=err):
                        if selector == "/b.txt":
                            raise OSError(err, os.strerror(err), selector)
                        return real(self_, selector)
                    hb.VFS_Real.stat = failing_stat
                    try:
                        h = mk(cls)
                        try:
                            h.prepare()
                            names = sorted(e.selector for e in h.fileentries)
                        except Exception as e:  # noqa
                            return {"confirmed": True, "scenario": "stat of one child failing with %s after the directory was enumerated" % _e2.errorcode[err], "handler": cls.__name__, "raised": repr(e)}
                    finally:
                        hb.VFS_Real.stat = real_stat
                    if not {"/a.txt", "/c.txt"} <= set(names):
                        return {"confirmed": True, "scenario": "servable entries missing when one child's stat fails", "listing": names}
        # C10 / C07: a directory request that carries search words (selector TAB words, Gopher or Gopher+) lists the directory,
        # and what it leaves in the cache is the directory's listing for every later reader
        sw = os.path.join(top, "swords")
        os.makedirs(sw, exist_ok=True)
        for f_ in ("alpha.txt", "beta.txt", "gamma.txt"):
            open(os.path.join(sw, f_), "w").write("x")
        prev_ct = cfg.get("handlers.dir.DirHandler", "cachetime")
        try:
            cfg.set("handlers.dir.DirHandler", "cachetime", "180")
            for first_rq in (b"/swords\tbeta\r\n", b"/swords\tgamma\t$\r\n", b"GET /swords?beta HTTP/1.0\r\n\r\n"):
                for f_ in glob_cache(sw, os.path.join(sw, cfg.get("handlers.dir.DirHandler", "cachefile"))):
                    os.unlink(f_)
                hb.rootpath = None; hm.rootpath = None; hm.handlers = None
                out1, _l = _serve(first_rq, cfg)
                out2, _l = _serve(b"/swords\r\n", cfg)
                for label, o_ in (("the request with search words itself", out1), ("a plain request served afterwards (from the cache the first one wrote)", out2)):
                    if not all(n_ in o_ for n_ in (b"alpha.txt", b"beta.txt", b"gamma.txt")):
                        return {"confirmed": True, "scenario": "directory request %r: %s does not list the whole directory" % (first_rq, label), "response": repr(o_[:300])}
        finally:
            cfg.set("handlers.dir.DirHandler", "cachetime", prev_ct)
            shutil.rmtree(sw, ignore_errors=True)
        return {"confirmed": None, "note": "scenarios passed"}
    finally:
        shutil.rmtree(top, ignore_errors=True)
        hb.rootpath = None; hm.rootpath = None; hm.handlers = None


# ------------------------------------------------------------------- site crawl (C04/C05/C03 stand-in)
def _serve(reqbytes, cfg, tls=False):
    from pygopherd import testutil, logger
    logs = []
    logger.log = lambda msg: logs.append(msg)

    class W(io.BytesIO):
        def close(self):
            pass

    h = testutil.get_testing_handler(io.BytesIO(reqbytes), io.BytesIO(), cfg, use_tls=tls)
    h.wfile = W()
    h.handle()
    return h.wfile.getvalue(), logs


def r_site_crawl(d):
    """Build a site with awkward names and contents, list it in every protocol, follow every local link with the
    protocol's own syntax and compare the body with the bytes on disk; also check that no request ends in an
    unhandled internal error and that answers do not depend on earlier requests."""
    import re as _re, shutil, tempfile, urllib.parse
    import pygopherd.handlers.base as hb
    import pygopherd.handlers.HandlerMultiplexer as hm
    top = tempfile.mkdtemp(prefix="pyvc-site-", dir="/var/tmp")
    try:
        files = {"plain.txt": b"hello\n", "what?.txt": b"question\n", "notes": b"n\n", "notes?v=2": b"v2\n", "a b&c=d.txt": b"amp\n",
                 "100%.txt": b"pct\n", "empty.bin": b"", "blk.bin": bytes(range(256)) * 16, "big.bin": bytes(range(256)) * 17 + b"x",
                 "why?really?.txt": b"two\n",
                 "100%20cotton.txt": b"literal percent-twenty\n", "rate%3Dlow.txt": b"literal percent-3D\n", "50%25off.txt": b"literal percent-25\n",
                 "cafe\u0301 menu.txt": b"decomposed accent\n", "\u212bngstrom.txt": b"canonical singleton\n"}
        os.makedirs(os.path.join(top, "sub"))
        for n, data in files.items():
            open(os.path.join(top, n), "wb").write(data)
        open(os.path.join(top, "sub", "inner.txt"), "wb").write(b"inner\n")
        cfg = _config({})
        cfg.set("pygopherd", "root", top)
        cfg.set("handlers.dir.DirHandler", "cachetime", "0")
        hb.rootpath = None; hm.rootpath = None; hm.handlers = None
        problems = []

        def internal_errors(logs):
            return [l for l in logs if "EXCEPTION" in l and "FileNotFound" not in l]

        # Gopher
        out, logs = _serve(b"/\r\n", cfg)
        if internal_errors(logs) or not out:
            return {"confirmed": True, "request": "/", "log": internal_errors(logs)[:2], "reply": repr(out[:60])}
        for line in out.decode("utf-8", "surrogateescape").splitlines():
            parts = line.split("\t")
            if len(parts) >= 4 and line[0] == "0":
                sel = parts[1]
                body, logs = _serve(sel.encode("utf-8", "surrogateescape") + b"\r\n", cfg)
                name = sel.lstrip("/")
                if internal_errors(logs) or (name in files and body != files[name]):
                    return {"confirmed": True, "protocol": "gopher", "selector": sel, "log": internal_errors(logs)[:2], "body": repr(body[:40])}
                plus, logs = _serve(sel.encode("utf-8", "surrogateescape") + b"\t+\r\n", cfg)
                if name in files and plus.startswith(b"+"):
                    head, _, rest = plus.partition(b"\r\n")
                    n = int(head[1:])
                    if rest != files[name] or (n != -2 and n != len(rest)):
                        return {"confirmed": True, "protocol": "gopher+", "selector": sel, "length_header": n, "body_len": len(rest)}
        # every regular file under the root, asked for by its exact name, is delivered byte for byte (and is in the menu)
        menu_sels = {l.split("\t")[1] for l in out.decode("utf-8", "surrogateescape").split("\r\n") if l.count("\t") >= 3}
        for name_, data_ in files.items():
            sel_ = "/" + name_
            body, logs = _serve(sel_.encode("utf-8", "surrogateescape") + b"\r\n", cfg)
            if body != data_:
                return {"confirmed": True, "protocol": "gopher", "selector": sel_, "scenario": "a regular file asked for by its exact name is not delivered byte for byte", "body": repr(body[:60]), "expected": repr(data_[:60])}
            if sel_ not in menu_sels:
                return {"confirmed": True, "protocol": "gopher", "selector": sel_, "scenario": "a regular file of the root directory is missing from the root menu", "menu": sorted(menu_sels)[:30]}
            resp, logs = _serve(b"GET " + urllib.parse.quote(sel_, errors="surrogateescape").encode() + b" HTTP/1.0\r\n\r\n", cfg)
            head, _, body = resp.partition(b"\r\n\r\n")
            if not head.startswith(b"HTTP/1.0 200") or body != data_:
                return {"confirmed": True, "protocol": "http", "selector": sel_, "scenario": "a regular file asked for by its exact (percent-encoded) name is not delivered byte for byte", "status": head[:40].decode("latin-1"), "body": repr(body[:60])}
        # HTTP: follow the HREFs of the server's own listing
        out, logs = _serve(b"GET / HTTP/1.0\r\n\r\n", cfg)
        first = out
        for href in _re.findall(rb'<A HREF="(/[^"]*)">', out):
            if href.startswith(b"/PYGOPHERD") or href == b"/":
                continue
            for method in (b"GET", b"HEAD"):
                resp, logs = _serve(method + b" " + href + b" HTTP/1.0\r\n\r\n", cfg)
                name = urllib.parse.unquote(href.decode(), errors="surrogateescape").lstrip("/")
                head, _, body = resp.partition(b"\r\n\r\n")
                if internal_errors(logs):
                    return {"confirmed": True, "protocol": "http", "href": href.decode(), "log": internal_errors(logs)[:2]}
                if name in files:
                    if not head.startswith(b"HTTP/1.0 200"):
                        return {"confirmed": True, "protocol": "http", "href": href.decode(), "status": head[:40].decode("latin-1"), "note": "link from the server's own listing is not served"}
                    if method == b"GET" and body != files[name]:
                        return {"confirmed": True, "protocol": "http", "href": href.decode(), "body": repr(body[:40]), "expected": repr(files[name][:40])}
                    if method == b"HEAD" and body:
                        return {"confirmed": True, "protocol": "http HEAD", "href": href.decode(), "body_bytes": len(body)}
        # history independence: the same HTTP listing after a Gopher+ listing
        _serve(b"/\t$\r\n", cfg)
        again, logs = _serve(b"GET / HTTP/1.0\r\n\r\n", cfg)
        strip = lambda b: _re.sub(rb"Last-Modified:[^\r]*\r\n", b"", b)
        if strip(again) != strip(first):
            return {"confirmed": True, "note": "the HTTP listing of / changed after a Gopher+ listing was served (history dependence)"}
        # malformed / odd selectors must get a well-formed answer, never an internal error
        for req in (b"/a|b|c\r\n", b"/a?b?c\r\n", b"/sub|x|y\t+\r\n", b"GET /a%7Cb%7Cc HTTP/1.0\r\n\r\n", b"h /a%3Fb%3Fc 0\r\n", b"/why?really?.txt\r\n"):
            resp, logs = _serve(req, cfg)
            if internal_errors(logs) or not resp:
                return {"confirmed": True, "request": repr(req), "log": internal_errors(logs)[:2], "reply": repr(resp[:40])}
        # URL: items advertised by the Gopher family are served by this server (the HTML redirect page)
        for sel_ in (b"URL:http://www.example.org/x//y", b"/URL:http://www.example.org/x"):
            out, _l = _serve(sel_ + b"\r\n", cfg)
            if out.startswith(b"3") or b"www.example.org" not in out:
                return {"confirmed": True, "scenario": "the Gopher item %r (a URL: link as menus advertise it) is not answered with the redirect page" % sel_, "response": repr(out[:200])}
        return {"confirmed": None, "note": "crawl consistent"}
    finally:
        shutil.rmtree(top, ignore_errors=True)
        hb.rootpath = None; hm.rootpath = None; hm.handlers = None


REALISERS.append(("pygopherd/handlers/virtual.py::", r_site_crawl))
REALISERS.append(("pygopherd/protocols/base.py::BaseGopherProtocol.__init__", r_site_crawl))
REALISERS.append(("pygopherd/protocols/base.py::BaseGopherProtocol.slashnormalize", r_site_crawl))
def _first_confirmed(*fns):
    def run(d):
        last = None
        for f in fns:
            last = f(d)
            if last.get("confirmed"):
                return last
        return last
    return run


REALISERS.append(("pygopherd/handlers/HandlerMultiplexer.py::", _first_confirmed(r_site_crawl, lambda d: r_dir(dict(d, obligation=d.get("obligation", "") + " prep_entries")), lambda d: r_zip(d))))
REALISERS.append(("pygopherd/handlers/base.py::VFS_Real.copyto", _first_confirmed(r_copyto, lambda d: r_handle_faults(dict(d, function="pygopherd/protocols/rfc1436.py::GopherProtocol.canhandlerequest")))))
REALISERS.append(("pygopherd/protocols/http.py::HTTPProtocol.handle", lambda d: (r_handle_faults(d) if d.get("kind") != "standin" else (lambda a, b: a if a.get("confirmed") else b)(r_site_crawl(d), r_handle_faults(d)))))

REALISERS.append(("pygopherd/protocols/base.py::BaseGopherProtocol.filenotfound", r_handle_faults))
REALISERS.append(("pygopherd/protocols/base.py::BaseGopherProtocol.writedir", lambda d: r_handle_faults(dict(d, function="pygopherd/protocols/base.py::BaseGopherProtocol.handle"))))
REALISERS.append(("pygopherd/handlers/UMN.py::", _first_confirmed(lambda d: r_dir(dict(d, obligation=d.get("obligation", "") + " processLinkFile prepare prep_entries")), r_c01_audit)))


# ------------------------------------------------------------------- gophermap scenarios (C09 stand-in)
def r_gophermap(d):
    """Generated gophermap files (info lines, blank lines, links with 1-4 fields, absolute/relative/URL: selectors,
    remote hosts, CRLF and LF endings, a last line without a newline) at three directory depths, read by the real
    BuckGophermapHandler and compared with the reference reading spec.gophermap_ref; then the gopher listing of the
    same directory must have one line per entry."""
    import itertools, shutil, tempfile
    import pygopherd.handlers.base as hb
    import pygopherd.handlers.HandlerMultiplexer as hm
    from pygopherd.handlers.gophermap import BuckGophermapHandler
    from pygopherd import logger
    from spec import specs as S
    logger.log = lambda m: None
    top = tempfile.mkdtemp(prefix="pyvc-gmap-", dir="/var/tmp")
    try:
        cfg = _config({})
        cfg.set("pygopherd", "root", top)
        firsts = ["0About", "1Sub dir", "hHome page", "iinfo with tab", "0", "9 spaced  name ", "IImage", "TTelnet 3270", "URL list", "0Caf\udce9 latin-1", "0Na\u00efve utf-8"]
        sels = [None, "", "rel.txt", "/abs/file.txt", "URL:http://example.org/", "sub/deeper.txt", " padded ", "URLs/list.txt", "URL", "/pub//archive", "proxy?u=http://example.org//x", "caf\udce9.txt", "r\udce9sum\udce9s/na\u00efve.txt", "docs/", "docs"]
        hosts = [None, "", "gopher.example.org"]
        ports = [None, "", "70", " 7070 "]
        links = []
        for f in firsts:
            for s in sels:
                if s is None:
                    links.append(f + "\t")
                    continue
                for h in hosts:
                    if h is None:
                        links.append(f + "\t" + s)
                        continue
                    for p in ports:
                        links.append(f + "\t" + s + "\t" + h + ("" if p is None else "\t" + p))
        links = [l for l in links if not (l.split("\t")[0].strip()[1:] == "" and (len(l.split("\t")) < 2 or l.split("\t")[1].strip() == ""))]
        infos = ["Welcome to the server", "", "   indented text", "no tab: but a colon", "trailing blanks   ", "Caf\udce9 du coin (latin-1 bytes)", "na\u00efve (utf-8)",
                 "Name              Size    Date", "  /\\_/\\   ascii   art", "two  spaces"]
        nscen = 0
        for depth, base in enumerate(["", "/docs", "/docs/deep er/x"]):
            dirp = top + base
            os.makedirs(dirp, exist_ok=True)
            open(os.path.join(dirp, "rel.txt"), "w").write("local file")
            os.makedirs(os.path.join(dirp, "docs"), exist_ok=True)
            for eol, last_nl in (("\n", True), ("\r\n", True), ("\n", False)):
                for k in range(0, len(links), 7):
                    chunk = links[k:k + 7]
                    lines = []
                    for i, l in enumerate(chunk):
                        lines.append(infos[(k + i) % len(infos)])
                        lines.append(l)
                    text = eol.join(lines) + (eol if last_nl else "")
                    with open(os.path.join(dirp, "gophermap"), "w", newline="", encoding="utf-8", errors="surrogateescape") as fh:
                        fh.write(text)
                    hb.rootpath = None; hm.rootpath = None; hm.handlers = None
                    h = BuckGophermapHandler(base or "/", "", None, cfg, os.stat(dirp))
                    if not h.canhandlerequest():
                        return {"confirmed": True, "scenario": "a directory holding a gophermap is not claimed by the gophermap handler", "directory": base or "/"}
                    want = S.gophermap_ref(text, base)
                    try:
                        h.prepare()
                    except Exception as e:  # noqa
                        return {"confirmed": True, "scenario": "well-formed gophermap %r in %s" % (text, base or "/"), "raised": repr(e)}
                    got = [(e.gettype(), e.getname(), e.getselector(), e.gethost(), e.getport()) for e in h.getdirlist()]
                    nscen += 1
                    if len(got) != len(want):
                        return {"confirmed": True, "scenario": "gophermap %r in %s" % (text, base or "/"), "entries": len(got), "lines": len(want)}
                    for g, w_, raw in zip(got, want, text.splitlines()):
                        local = w_[3] is None and w_[4] is None
                        ok = g[0] == w_[0] and g[2] == w_[2] and g[3] == w_[3] and g[4] == w_[4] and (g[1] == w_[1] or (local and w_[1] == ""))
                        if not ok:
                            return {"confirmed": True, "scenario": "gophermap line %r in directory %s" % (raw, base or "/"), "entry (type, name, selector, host, port)": list(g), "reference reading": list(w_)}
                    out, _l = _serve((base or "/").encode() + b"\r\n", cfg)
                    nl = [x for x in out.split(b"\r\n") if x and x != b"."]
                    if len(nl) != len(want):
                        return {"confirmed": True, "scenario": "gopher listing of %s has %d lines for a gophermap of %d lines" % (base or "/", len(nl), len(want))}
        # several lines may point at the same local target: each keeps its own type and description
        dn2 = os.path.join(top, "proj")
        os.makedirs(os.path.join(dn2, "src"), exist_ok=True)
        open(os.path.join(dn2, "README.txt"), "w").write("r")
        text = "0Read me first\tREADME.txt\n1Sources\tsrc\nhThe same file as HTML\tREADME.txt\n0Absolute spelling\t/proj/README.txt\n1Browse the code\t/proj/src\n"
        open(os.path.join(dn2, "gophermap"), "w").write(text)
        hb.rootpath = None; hm.rootpath = None; hm.handlers = None
        h = BuckGophermapHandler("/proj", "", None, cfg, os.stat(dn2))
        h.prepare()
        got = [(e.gettype(), e.getname(), e.getselector()) for e in h.getdirlist()]
        want = [(w_[0], w_[1], w_[2]) for w_ in S.gophermap_ref(text, "/proj")]
        if got != want:
            return {"confirmed": True, "scenario": "a gophermap naming the same local target on several lines", "entries": got, "reference reading": want}
        # a directory whose own name ends in .gophermap is a directory holding a gophermap, not a map file
        dn = os.path.join(top, "menus.gophermap")
        os.makedirs(dn, exist_ok=True)
        open(os.path.join(dn, "gophermap"), "w").write("Inside a directory called menus.gophermap\n0A file\tfile.txt\n")
        out, _l = _serve(b"/menus.gophermap\r\n", cfg)
        nl = [x for x in out.split(b"\r\n") if x and x != b"."]
        if len(nl) != 2 or nl[0][:1] != b"i" or b"/menus.gophermap/file.txt" not in nl[1]:
            return {"confirmed": True, "scenario": "a directory named menus.gophermap holding a two-line gophermap", "response": repr(out[:300])}
        # malformed lines (no item type, a type but neither description nor selector, a non-numeric port) never fail the directory
        dn = os.path.join(top, "malformed")
        os.makedirs(dn, exist_ok=True)
        open(os.path.join(dn, "a.txt"), "w").write("x")
        for content in (b"Welcome\n\ta.txt\n0A\ta.txt\n", b"0\t\n0A\ta.txt\n", b"0A\ta.txt\thost.example\tnotaport\n0B\ta.txt\n", b"\t\t\t\n0A\ta.txt\n"):
            open(os.path.join(dn, "gophermap"), "wb").write(content)
            for rq in (b"/malformed\r\n", b"/malformed\t$\r\n", b"GET /malformed HTTP/1.0\r\n\r\n"):
                hb.rootpath = None; hm.rootpath = None; hm.handlers = None
                out, logs_ = _serve(rq, cfg)
                bad = [l for l in logs_ if "EXCEPTION" in l and "FileNotFound" not in l]
                if bad or not out or b"a.txt" not in out:
                    return {"confirmed": True, "scenario": "a directory whose gophermap is %r, request %r: every request gets one complete response and the well-formed lines are rendered" % (content, rq),
                            "response": repr(out[:200]), "log": bad[-1:]}
        # a gophermap of zero lines (or of one empty line) is still THE listing of its directory: no entry for the files next to it
        for content, nwant in ((b"", 0), (b"\n", 1), (b"only text\n", 1)):
            dn = os.path.join(top, "archive", "private")
            os.makedirs(dn, exist_ok=True)
            for f_ in ("a.txt", "b.txt", "c.txt"):
                open(os.path.join(dn, f_), "w").write("x")
            open(os.path.join(dn, "gophermap"), "wb").write(content)
            hb.rootpath = None; hm.rootpath = None; hm.handlers = None
            out, _l = _serve(b"/archive/private\r\n", cfg)
            nl = [x for x in out.split(b"\r\n") if x and x != b"."]
            if len(nl) != nwant or any(b"a.txt" in x for x in nl) or out.startswith(b"3"):
                return {"confirmed": True, "scenario": "a directory whose gophermap is %r must be listed as that gophermap's %d line(s), not as its files" % (content, nwant), "response": repr(out[:300])}
        return {"confirmed": None, "note": "%d generated gophermaps agree with the reference reading" % nscen}
    finally:
        shutil.rmtree(top, ignore_errors=True)
        hb.rootpath = None; hm.rootpath = None; hm.handlers = None


REALISERS.append(("pygopherd/handlers/gophermap.py::", r_gophermap))
REALISERS.append(("pygopherd/gopherentry.py::getinfoentry", r_gophermap))


# ------------------------------------------------------------------- archive vs. extracted tree (C16 stand-in)
def r_zip(d):
    """(1) Real-file-only handlers: an archive holding a mailbox file, a Maildir-shaped directory, an executable
    script and a nested archive is browsed with the server's working directory watched: no handler may touch a
    path outside the archive.  (2) A tree with nested and implicit directories, dot-files, sidecars, a .Links file,
    a gophermap, UTF-8 names and relative/absolute/dangling/cyclic/escaping symlink members is served from disk
    (/T/...) and from the archive (/T.zip/...) in four protocols; the answers must agree once the prefix and the
    timestamps are removed, and an escaping link must not resolve."""
    import glob, re as _re, shutil, stat as _stat, tempfile, zipfile
    import pygopherd.handlers.base as hb
    import pygopherd.handlers.HandlerMultiplexer as hm
    top = tempfile.mkdtemp(prefix="pyvc-zip-", dir="/var/tmp")
    cwd = tempfile.mkdtemp(prefix="pyvc-zipcwd-", dir="/var/tmp")
    old_cwd = os.getcwd()
    try:
        cfg = _config({})
        cfg.set("pygopherd", "root", top)
        cfg.set("handlers.ZIP.ZIPHandler", "enabled", "true")
        cfg.set("handlers.dir.DirHandler", "cachetime", "0")

        def serve(req):
            hb.rootpath = None; hm.rootpath = None; hm.handlers = None
            try:
                out, logs = _serve(req, cfg)
            except BaseException as e:  # noqa
                return b"RAISED " + repr(e).encode(), []
            return out, logs

        # ---- (1) real-file-only handlers
        os.chdir(cwd)
        MB = b"From alice@example.org Mon Jan  1 00:00:00 2024\nSubject: hi\n\nbody\n\n"
        inner = io.BytesIO()
        with zipfile.ZipFile(inner, "w") as z:
            z.writestr("hello.txt", b"member of the inner archive\n")
        with zipfile.ZipFile(os.path.join(cwd, "inner.zip"), "w") as z:
            z.writestr("secret.txt", b"outside the root\n")
        open(os.path.join(cwd, "box.mbox"), "wb").write(MB.replace(b"hi", b"REAL FILE OUTSIDE THE ROOT"))
        with zipfile.ZipFile(os.path.join(top, "R.zip"), "w") as z:
            z.writestr("box.mbox", MB)
            z.writestr("md/new/", b""); z.writestr("md/cur/", b""); z.writestr("md/tmp/", b"")
            z.writestr("inner.zip", inner.getvalue())
            zi = zipfile.ZipInfo("run.sh"); zi.external_attr = (_stat.S_IFREG | 0o755) << 16
            z.writestr(zi, b"#!/bin/sh\necho EXECUTED\n")
            zi = zipfile.ZipInfo("run.pyg"); zi.external_attr = (_stat.S_IFREG | 0o755) << 16
            z.writestr(zi, b"raise SystemExit('EXECUTED')\n")
        cfg.set("handlers.HandlerMultiplexer", "handlers",
                "[ZIP.ZIPHandler, mbox.MaildirFolderHandler, mbox.MaildirMessageHandler, UMN.UMNDirHandler, mbox.MBoxMessageHandler, "
                "mbox.MBoxFolderHandler, pyg.PYGHandler, scriptexec.ExecHandler, file.FileHandler]")
        before = sorted(os.listdir(cwd))
        for sel, expect in ((b"/R.zip/box.mbox", MB), (b"/R.zip/md", None), (b"/R.zip/box.mbox|/MBOX-MESSAGE/1", None), (b"/R.zip/md|/MAILDIR-MESSAGE/1", None),
                            (b"/R.zip/inner.zip", inner.getvalue()), (b"/R.zip/inner.zip/hello.txt", None), (b"/R.zip/run.sh", b"#!/bin/sh\necho EXECUTED\n"),
                            (b"/R.zip/run.pyg", b"raise SystemExit('EXECUTED')\n")):
            out, logs = serve(sel + b"\r\n")
            after = sorted(os.listdir(cwd))
            if after != before:
                return {"confirmed": True, "scenario": "request %r for an archive member changed the server's working directory (outside the archive)" % sel, "before": before, "after": after}
            if b"REAL FILE OUTSIDE" in out or b"outside the root" in out or out.startswith(b"RAISED") or any("NoSuchMailbox" in l or "Traceback" in l for l in logs):
                return {"confirmed": True, "scenario": "request %r for an archive member was handled by a real-file handler" % sel, "response": repr(out[:200]), "log": logs[-1:]}
            if expect is not None and out != expect:
                return {"confirmed": True, "scenario": "archive member %r is not served as the plain member bytes" % sel, "response": repr(out[:200])}
        os.chdir(old_cwd)
        # ---- (2) archive vs. extracted tree
        T = os.path.join(top, "T")
        files = {"a.txt": b"alpha\n", "dir/b.txt": b"beta\n", "dir/sub/c.txt": b"gamma\n", ".hidden": b"h\n", "dir/b.txt.abstract": b"About b\n",
                 "dir/.Links": b"Name=Mirror\nType=1\nPath=/elsewhere\nHost=h.example\nPort=70\n", "gm/gophermap": b"Welcome\n0Doc\tdoc.txt\n1Up\t/\n", "gm/doc.txt": b"doc\n",
                 "naïve.txt": b"utf8 name\n", "empty/": b"", "page.html": b"<html><head><title>T &amp; U</title></head><body>x</body></html>",
                 "deep/er/still/x.bin": bytes(range(256)), "café/mü.txt": b"nested utf8\n", "downloads/tools.zip": b"PK-looking member, served as a document\n",
                 "downloads/notes.zip.txt": b"not an archive\n", "backup-2020.zip/inside.txt": b"a folder whose name looks like an archive\n",
                 "bom/.names": b"\xef\xbb\xbfName=Quarterly report\nPath=./report.txt\n", "bom/report.txt": b"r\n", "bom/report.txt.abstract": b"\xef\xbb\xbfAbstract with a byte order mark\n"}
        links = {"ln_rel": "a.txt", "dir/ln_up": "../a.txt", "ln_abs": "/dir/b.txt", "ln_dangling": "nowhere.txt", "ln_a": "ln_b", "ln_b": "ln_a",
                 "ln_dir": "dir", "dir/sub/ln_upup": "../../gm/doc.txt",
                 # climbs above the tree; clamping the surplus '..' would name an existing member
                 "dir/ln_clamp": "../../a.txt", "dir/sub/ln_clamp2": "../../../gm/doc.txt"}
        escaping = {"ln_escape": "../outside.txt", "dir/ln_escape2": "../../outside.txt"}
        open(os.path.join(top, "outside.txt"), "w").write("OUTSIDE THE ARCHIVE\n")
        for n, data in files.items():
            p = os.path.join(T, n)
            if n.endswith("/"):
                os.makedirs(p, exist_ok=True)
                continue
            os.makedirs(os.path.dirname(p), exist_ok=True)
            open(p, "wb").write(data)
        with zipfile.ZipFile(os.path.join(top, "T.zip"), "w") as z:
            for n, data in files.items():
                z.writestr(n, data)
            for n, dest in list(links.items()) + list(escaping.items()):
                zi = zipfile.ZipInfo(n)
                zi.external_attr = (_stat.S_IFLNK | 0o777) << 16
                z.writestr(zi, dest)
        for n, dest in links.items():
            tgt = dest if not dest.startswith("/") else os.path.relpath(os.path.join(T, dest[1:]), os.path.dirname(os.path.join(T, n)))
            os.symlink(tgt, os.path.join(T, n))
        cfg.set("handlers.HandlerMultiplexer", "handlers",
                "[ZIP.ZIPHandler, url.HTMLURLHandler, gophermap.BuckGophermapHandler, UMN.UMNDirHandler, html.HTMLFileTitleHandler, file.FileHandler]")

        def norm(b):
            b = b.replace(b"/T.zip", b"/T").replace(b"1T.zip\t", b"1T\t").replace(b"Gopher: T.zip", b"Gopher: T")
            b = _re.sub(rb" Mod-Date: [^\r\n]*\r\n", b"", b)
            b = _re.sub(rb"Last-Modified: [^\r\n]*\r\n", b"", b)
            return b

        sels = ["", "/", "/a.txt", "/dir", "/dir/", "/dir/b.txt", "/dir/sub", "/dir/sub/c.txt", "/.hidden", "/gm", "/gm/doc.txt", "/missing", "/dir/missing",
                "/a.txt/below", "/empty", "/page.html", "/naïve.txt", "/café", "/café/mü.txt", "/deep", "/deep/er/still/x.bin", "/ln_rel", "/dir/ln_up",
                "/ln_abs", "/ln_dangling", "/ln_a", "/ln_dir", "/ln_dir/b.txt", "/dir/sub/ln_upup", "/dir/.Links", "/gm/gophermap", "/dir/b.txt.abstract",
                "/dir/ln_clamp", "/dir/sub/ln_clamp2", "/A.TXT", "/Dir", "/DIR/b.txt", "/dir/B.TXT", "/Gm/doc.txt",
                "/downloads", "/downloads/notes.zip.txt", "/downloads/tools.zip", "/backup-2020.zip", "/backup-2020.zip/inside.txt", "/bom", "/bom/report.txt"]
        enc = lambda s: s.encode("utf-8", "surrogateescape")
        reqs = [("gopher", lambda s: enc(s) + b"\r\n"), ("gopher+ $", lambda s: enc(s) + b"\t$\r\n"), ("gopher+ !", lambda s: enc(s) + b"\t!\r\n"),
                ("http", lambda s: b"GET " + enc(s or "/") + b" HTTP/1.0\r\n\r\n")]
        n = 0
        for s in sels:
            for pname, mk in reqs:
                a, _l = serve(mk("/T" + s))
                b, _l = serve(mk("/T.zip" + s))
                n += 1
                if norm(a) != norm(b):
                    return {"confirmed": True, "scenario": "selector %r (%s): the archive and the extracted tree answer differently" % (s, pname),
                            "extracted": repr(norm(a)[:300]), "archive": repr(norm(b)[:300])}
        # the same tree stored in different member orders (a link through a directory link that is stored later)
        import itertools as _it
        LT = os.path.join(top, "L")
        os.makedirs(os.path.join(LT, "realdir"))
        open(os.path.join(LT, "realdir", "file.txt"), "wb").write(b"content\n")
        os.symlink("d/file.txt", os.path.join(LT, "z"))
        os.symlink("realdir", os.path.join(LT, "d"))
        os.symlink("d", os.path.join(LT, "dd"))
        members = [("z", "d/file.txt"), ("d", "realdir"), ("dd", "d"), ("realdir/file.txt", None)]
        for perm in _it.permutations(members):
            lz = os.path.join(top, "L.zip")
            for f_ in glob.glob(os.path.join(top, ".cache.pygopherd.zip3.L.zip*")) + [lz]:
                if os.path.exists(f_):
                    os.unlink(f_)
            with zipfile.ZipFile(lz, "w") as z:
                for n_, dest in perm:
                    if dest is None:
                        z.writestr(n_, b"content\n")
                    else:
                        zi = zipfile.ZipInfo(n_)
                        zi.external_attr = (_stat.S_IFLNK | 0o777) << 16
                        z.writestr(zi, dest)
            for s in ("", "/z", "/d", "/d/file.txt", "/dd", "/dd/file.txt", "/realdir/file.txt"):
                a, _l = serve(enc("/L" + s) + b"\r\n")
                b, _l = serve(enc("/L.zip" + s) + b"\r\n")
                n += 1
                if a.replace(b"/L.zip", b"/L") != b.replace(b"/L.zip", b"/L"):
                    return {"confirmed": True, "scenario": "members stored in the order %s, selector %r: the archive and the extracted tree answer differently" % ([m[0] for m in perm], s),
                            "extracted": repr(a[:300]), "archive": repr(b[:300])}
        # a long chain of links, every link stored before its target
        CT = os.path.join(top, "CH")
        os.makedirs(os.path.join(CT, "docs"))
        open(os.path.join(CT, "real.txt"), "wb").write(b"end of the chain\n")
        open(os.path.join(CT, "docs", "page.txt"), "wb").write(b"page\n")
        with zipfile.ZipFile(os.path.join(top, "CH.zip"), "w") as z:
            for i_ in range(1, 15):
                for pre, last in (("l", "real.txt"), ("d", "docs")):
                    dest = "%s%02d" % (pre, i_ + 1) if i_ < 14 else last
                    zi = zipfile.ZipInfo("%s%02d" % (pre, i_))
                    zi.external_attr = (_stat.S_IFLNK | 0o777) << 16
                    z.writestr(zi, dest)
                    if not os.path.lexists(os.path.join(CT, "%s%02d" % (pre, i_))):
                        os.symlink(dest, os.path.join(CT, "%s%02d" % (pre, i_)))
            z.writestr("real.txt", b"end of the chain\n")
            z.writestr("docs/page.txt", b"page\n")
        for s in ("", "/l01", "/l07", "/l14", "/d01", "/d02/page.txt", "/d14/page.txt"):
            a, _l = serve(enc("/CH" + s) + b"\r\n")
            b, _l = serve(enc("/CH.zip" + s) + b"\r\n")
            n += 1
            if a.replace(b"/CH.zip", b"/CH") != b.replace(b"/CH.zip", b"/CH"):
                return {"confirmed": True, "scenario": "a chain of 14 links, each stored before its target, selector %r: the archive and the extracted tree answer differently" % s,
                        "extracted": repr(a[:300]), "archive": repr(b[:300])}
        # archives without any file member: empty, and directory members only
        os.makedirs(os.path.join(top, "E"))
        os.makedirs(os.path.join(top, "D", "a", "b"))
        os.makedirs(os.path.join(top, "D", "c"))
        with zipfile.ZipFile(os.path.join(top, "E.zip"), "w"):
            pass
        with zipfile.ZipFile(os.path.join(top, "D.zip"), "w") as z:
            for dn in ("a/", "a/b/", "c/"):
                z.writestr(dn, b"")
        for base_ in ("E", "D"):
            for s in ("", "/a", "/a/b", "/c", "/missing"):
                for pname, mk in reqs[:2]:
                    a, la = serve(mk("/" + base_ + s))
                    b, lb = serve(mk("/" + base_ + ".zip" + s))
                    na = norm(a).replace(b"/" + base_.encode() + b".zip", b"/" + base_.encode()).replace(b"1" + base_.encode() + b".zip\t", b"1" + base_.encode() + b"\t")
                    nb = norm(b).replace(b"/" + base_.encode() + b".zip", b"/" + base_.encode()).replace(b"1" + base_.encode() + b".zip\t", b"1" + base_.encode() + b"\t")
                    if na != nb or b.startswith(b"RAISED"):
                        return {"confirmed": True, "scenario": "archive %s.zip (no file members), selector %r (%s): differs from the directory tree" % (base_, s, pname), "extracted": repr(na[:200]), "archive": repr(nb[:200])}
        for s in escaping:
            for pname, mk in reqs:
                b, _l = serve(mk("/T.zip/" + s))
                if b"OUTSIDE THE ARCHIVE" in b:
                    return {"confirmed": True, "scenario": "symbolic link member %r -> %r resolved to a file outside the archive" % (s, escaping[s])}
        # an archive replaced between two requests: the second answer is about the new archive
        import time as _t
        rel = os.path.join(top, "rel.zip")
        with zipfile.ZipFile(rel, "w") as z:
            z.writestr("old.c", b"release 1\n")
            z.writestr("common.txt", b"one\n")
        a1, _l = serve(b"/rel.zip\r\n")
        tmpz = os.path.join(top, "rel.zip.new")
        with zipfile.ZipFile(tmpz, "w") as z:
            z.writestr("new.c", b"release 2\n")
            z.writestr("common.txt", b"two, longer\n")
            z.writestr("doc/readme", b"r\n")
        later = _t.time() + 3600
        os.utime(tmpz, (later, later))
        os.replace(tmpz, rel)
        a2, _l = serve(b"/rel.zip\r\n")
        c2, _l = serve(b"/rel.zip/common.txt\r\n")
        o2, _l = serve(b"/rel.zip/old.c\r\n")
        if b"new.c" not in a2 or b"old.c" in a2 or c2 != b"two, longer\n" or not o2.startswith(b"3"):
            return {"confirmed": True, "scenario": "rel.zip was replaced by a newer archive between two requests: the answers still describe the old one",
                    "listing": repr(a2[:200]), "common.txt": repr(c2[:40]), "old.c": repr(o2[:60])}
        # one long-lived process: what was browsed inside archives earlier does not change later answers
        hb.rootpath = None; hm.rootpath = None; hm.handlers = None
        probes = [b"/T.zip\r\n", b"/T/a.txt\r\n", b"/\r\n", b"/T.zip\t$\r\n", b"GET /T.zip HTTP/1.0\r\n\r\n", b"/T.zip/dir/b.txt\r\n", b"/D.zip\r\n"]

        def ask_all():
            out = []
            for rq in probes:
                try:
                    o, _l = _serve(rq, cfg)
                except BaseException as e:  # noqa
                    o = b"RAISED " + repr(e).encode()
                out.append(norm(o))
            return out

        first = ask_all()
        for rq in (b"/T.zip/dir\r\n", b"/T.zip/dir/sub/c.txt\r\n", b"/T.zip/missing\r\n", b"/T.zip/ln_dir/b.txt\r\n", b"/R.zip/inner.zip\r\n", b"/T.zip/gm\t$\r\n"):
            try:
                _serve(rq, cfg)
            except BaseException:  # noqa
                pass
        second = ask_all()
        for rq, a_, b_ in zip(probes, first, second):
            if a_ != b_:
                return {"confirmed": True, "scenario": "request %r is answered differently after other (read-only) requests into archives were served by the same process" % rq,
                        "first": repr(a_[:200]), "later": repr(b_[:200])}
        return {"confirmed": None, "note": "real-file scenarios passed; %d archive/extracted comparisons agree" % n}
    finally:
        os.chdir(old_cwd)
        shutil.rmtree(top, ignore_errors=True)
        shutil.rmtree(cwd, ignore_errors=True)
        hb.rootpath = None; hm.rootpath = None; hm.handlers = None


REALISERS.append(("pygopherd/handlers/ZIP.py::", r_zip))
for _q in ("pygopherd/handlers/mbox.py::MBoxFolderHandler.canhandlerequest", "pygopherd/handlers/mbox.py::MaildirFolderHandler.canhandlerequest",
           "pygopherd/handlers/mbox.py::MessageHandler.canhandlerequest", "pygopherd/handlers/pyg.py::PYGHandler.canhandlerequest",
           "pygopherd/handlers/scriptexec.py::ExecHandler.canhandlerequest"):
    REALISERS.append((_q, (lambda d: r_zip(d) if d.get("property") == "C16" else None)))


# ------------------------------------------------------------------- simpleTAL: pure functions (C17)
def r_tal_pure(d):
    """Counter-model replay for the command compilers and the repeat-variable getters: call the real method with the
    model's argument and evaluate the contract clause natively."""
    from simpletal import simpleTAL, simpleTALES
    m = d["model"]
    fn = d["function"].split("::")[1].split(" [")[0]
    cls, meth = fn.split(".")

    def env_fn(tls):
        if cls in ("TemplateCompiler", "HTMLTemplateCompiler"):
            o = simpleTAL.TemplateCompiler()
            o.currentStartTag = ("div", [])
            o.endTagSymbol = int(m.get("self.endTagSymbol", 7))
            env = {"self": o, "argument": m.get("argument", ""), "replaceFlag": int(m.get("replaceFlag", 0))}
        else:
            n = max(1, int(m.get("self.sequence_len", 1)))
            o = simpleTALES.RepeatVariable(list(range(n)))
            o.position = int(m.get("self.position", 0))
            env = {"self": o}
        env["S"] = S
        env["implies"] = implies
        return env

    def call_fn(env):
        f = getattr(env["self"], meth)
        if "argument" in env and meth == "compileCmdContent":
            return f(env["argument"], env["replaceFlag"])
        if "argument" in env:
            return f(env["argument"])
        return f()

    r = _native_check(d, env_fn, call_fn)
    return r


REALISERS.append(("simpletal/simpleTAL.py::TemplateCompiler.compileCmd", r_tal_pure))
REALISERS.append(("simpletal/simpleTALES.py::RepeatVariable.get", r_tal_pure))


# ------------------------------------------------------------------- simpleTAL scenarios (C17 / C18 stand-in)
def r_tal(d):
    """Bounded stand-in for the parts of C17/C18 that are induction over whole programs: generated templates (every
    subset of define/condition/repeat/content|replace/attributes/omit-tag on nested elements) x contexts with markup
    metacharacters, missing paths, empty sequences.  Checks: compiled programs are well-formed (scopes balanced, every
    jump symbol points at the ENDTAG_ENDSCOPE of the element that owns the command); context data never becomes
    markup; python: is inert when disabled; a TAL-free document round-trips and is a fixed point; locals, globals and
    the repeat map are what they were before the expansion; repeat letter/roman numbering against a reference."""
    import io as _io, itertools, html.parser
    from simpletal import simpleTAL, simpleTALES
    what = d.get("function", "") + " " + d.get("obligation", "")
    EVIL = '&amp;&#65;<script>alert(1)</script>&" onmouseover="alert(2)\'x'

    class _Info:
        size = 42

    class _Rec:
        def info(self):
            return _Info()

    class Canary:
        hits = 0

        def __call__(self):
            Canary.hits += 1
            return "CANARY"

    def mkctx(allow):
        ctx = simpleTALES.Context(allowPythonPath=allow)
        ctx.addGlobal("evil", EVIL)
        ctx.addGlobal("items", [EVIL, "two", "<b>three</b>"])
        ctx.addGlobal("empty", [])
        ctx.addGlobal("num", 42)
        ctx.addGlobal("nested", {"k": EVIL, "l": [1, 2]})
        ctx.addGlobal("canary", Canary())
        ctx.addGlobal("emptyit", iter(()))
        ctx.addGlobal("emptygen", (x for x in ()))
        ctx.addGlobal("gen", (x for x in ("g1", "g2")))
        return ctx

    def skeleton(doc):
        out = []

        class P(html.parser.HTMLParser):
            def handle_starttag(self, tag, attrs):
                out.append(("start", tag, tuple(sorted(k for k, v in attrs))))

            def handle_endtag(self, tag):
                out.append(("end", tag))

        P(convert_charrefs=True).feed(doc)
        return out

    commands = {"define": 'tal:define="v evil; w missing/path | nothing"', "condition": 'tal:condition="COND"', "repeat": 'tal:repeat="it SEQ"',
                "content": 'tal:content="EXPR"', "replace": 'tal:replace="EXPR"', "attributes": 'tal:attributes="title EXPR; class v | default"', "omit": 'tal:omit-tag="OMIT"'}
    names = ["define", "condition", "repeat", "content", "attributes", "omit"]
    templates = []
    for r in range(len(names) + 1):
        for combo in itertools.combinations(names, r):
            for variant in range(3):
                atts = " ".join(commands["replace" if (c == "content" and variant == 2) else c] for c in combo)
                atts = atts.replace("COND", ["evil", "missing/path", "not:empty"][variant]).replace("SEQ", ["items", "empty", "missing/path"][variant])
                atts = atts.replace("EXPR", ["evil", "it | evil", "string:${evil} and $num"][variant]).replace("OMIT", ["", "evil", "nothing"][variant])
                inner = '<i tal:repeat="j nested/l" tal:content="repeat/j/number">n</i><span tal:define="global g evil" tal:content="g">t</span>'
                templates.append('<html><body><p id="static" %s>body %s</p><hr><div tal:define="z num">after <b tal:content="z">z</b></div></body></html>' % (atts, inner))
    templates.append('<html><body><p tal:define="title string:Listing" tal:repeat="it emptyit">a</p><p tal:define="t2 evil" tal:repeat="it emptygen">b</p>'
                     '<p tal:define="t3 num" tal:repeat="it gen" tal:content="it">c</p></body></html>')
    templates.append('<html><body><div tal:define="global g string:G; tmp evil; local other num"><p tal:content="tmp">t</p></div><p tal:content="tmp | string:out-of-scope">s</p></body></html>')
    templates.append('<html><body><p tal:content="python: (count := len(items))">n</p><p tal:condition="python: [leak for leak in items]">y</p></body></html>')
    templates.append('<html><body><p tal:content="python: canary()">x</p><p tal:condition="python: canary()">y</p><p tal:attributes="a python: canary()">z</p></body></html>')
    templates.append('<html><div metal:define-macro="m"><p>macro <span metal:define-slot="s">default</span></p></div><div metal:use-macro="container/macros/m"><b metal:fill-slot="s" tal:content="evil">x</b></div></html>')
    n = 0
    for t in templates:
        try:
            tpl = simpleTAL.compileHTMLTemplate(t)
        except Exception as e:  # noqa
            return {"confirmed": True, "scenario": "a well-formed template does not compile", "template": t, "raised": repr(e)}
        # ---- C17: structure of the compiled program
        cmds, syms = tpl.commandList, tpl.symbolTable
        depth = 0
        owners = []
        for idx, (op, args) in enumerate(cmds):
            if op == simpleTAL.TAL_START_SCOPE:
                depth += 1
                owners.append(idx)
            elif op == simpleTAL.TAL_ENDTAG_ENDSCOPE:
                depth -= 1
                if depth < 0:
                    return {"confirmed": True, "scenario": "compiled program closes a scope it never opened", "template": t, "at": idx}
        if depth != 0:
            return {"confirmed": True, "scenario": "compiled program leaves %d scope(s) open" % depth, "template": t}
        stack = []
        for idx, (op, args) in enumerate(cmds):
            if op == simpleTAL.TAL_START_SCOPE:
                stack.append([idx, None])
            elif op == simpleTAL.TAL_ENDTAG_ENDSCOPE:
                start, sym = stack.pop()
                if sym is not None and syms.get(sym) != idx:
                    return {"confirmed": True, "scenario": "a jump symbol of the element opened at %d points at %r, not at its end tag %d" % (start, syms.get(sym), idx), "template": t}
            else:
                sym = None
                if op in (simpleTAL.TAL_CONDITION,):
                    sym = args[1]
                elif op in (simpleTAL.TAL_REPEAT, simpleTAL.METAL_USE_MACRO):
                    sym = args[2]
                elif op == simpleTAL.TAL_CONTENT:
                    sym = args[3]
                elif op == simpleTAL.METAL_DEFINE_SLOT:
                    sym = args[1]
                if sym is not None:
                    if not stack:
                        return {"confirmed": True, "scenario": "jumping command outside any scope", "template": t}
                    if stack[-1][1] is not None and stack[-1][1] != sym:
                        return {"confirmed": True, "scenario": "two commands of one element jump to different symbols", "template": t}
                    stack[-1][1] = sym
        # ---- C18: expansion
        for allow in (0, 1, 0):   # off, on, and off again after the same expressions ran with the switch on
            ctx = mkctx(allow)
            if "macro" in t:
                ctx.addGlobal("container", tpl)
            before_l = dict(ctx.locals)
            before_g = {k: v for k, v in ctx.globals.items() if k not in ("attrs", "g")}
            before_r = dict(ctx.repeatMap)
            depth_l, depth_r = len(ctx.localStack), len(ctx.repeatStack)
            Canary.hits = 0
            out = _io.StringIO()
            try:
                tpl.expand(ctx, out)
            except Exception as e:  # noqa
                return {"confirmed": True, "scenario": "expansion raised", "template": t, "allowPythonPath": allow, "raised": repr(e)}
            n += 1
            doc = out.getvalue()
            if not allow and Canary.hits and "python:" in t:
                return {"confirmed": True, "scenario": "a python: expression was evaluated with allowPythonPath off (canary called %d times)" % Canary.hits, "template": t}
            if "structure" not in t and ("<script" in doc or any(tag[1] == "script" for tag in skeleton(doc) if tag[0] == "start")):
                return {"confirmed": True, "scenario": "context data became markup in the output", "template": t, "output": doc[:400]}
            for tag in skeleton(doc):
                if tag[0] == "start" and any(a not in ("id", "title", "class", "a") for a in tag[2]):
                    return {"confirmed": True, "scenario": "context data introduced an attribute", "template": t, "tag": repr(tag), "output": doc[:400]}
            after_g = {k: v for k, v in ctx.globals.items() if k not in ("attrs", "g")}
            if dict(ctx.locals) != before_l or after_g != before_g or dict(ctx.repeatMap) != before_r or len(ctx.localStack) != depth_l or len(ctx.repeatStack) != depth_r:
                return {"confirmed": True, "scenario": "the context is not what it was before the expansion", "template": t,
                        "locals": [sorted(before_l), sorted(ctx.locals)], "stack depths": [depth_l, len(ctx.localStack), depth_r, len(ctx.repeatStack)],
                        "repeat": [sorted(before_r), sorted(ctx.repeatMap)]}
    # ---- TAL semantics spot checks (each follows from the TAL specification; not an independent evaluator)
    SEM = [('<ul><li tal:repeat="item rows"><i tal:repeat="item inner" tal:content="item">x</i> row <b tal:content="repeat/item/number">n</b> of <b tal:content="repeat/item/length">l</b></li></ul>',
            {"rows": ["r1", "r2"], "inner": ["i1", "i2", "i3"]}, ["row <b>1</b> of <b>2</b>", "row <b>2</b> of <b>2</b>"],
            "repeat variables are scoped: after an inner loop that re-uses the name, repeat/item refers to the outer loop again"),
           ('<p tal:define="a string:Hello; b a; global g2 b" tal:content="b">x</p><h1 tal:content="g2">y</h1>', {}, ["<p>Hello</p>", "<h1>Hello</h1>"],
            "tal:define binds left to right: a later definition sees the earlier ones of the same attribute"),
           ('<p tal:define="a string:one"><b tal:define="a string:two" tal:content="a">x</b><i tal:content="a">y</i></p>', {}, ["<b>two</b>", "<i>one</i>"],
            "a local define ends with its element"),
           ('<p tal:condition="nothing">gone</p><p tal:condition="not:nothing" tal:replace="string:kept">x</p>', {}, ["kept"], "condition / replace"),
           ('<p tal:content="rec2/title | string:untitled">t</p><a href="h" tal:attributes="href missing | nolink | default">l</a>', {"rec2": {"title": None}, "nolink": None}, ["<p></p>", "<a>l</a>"],
            "alternation moves on only when a path cannot be traversed: an existing alternative whose value is nothing IS the result"),
           ('<p tal:content="raw">x</p><i tal:replace="raw">y</i><b tal:content="text raw">z</b>', {"raw": b"<script>alert(1)</script>&x"}, ["<p>&lt;script&gt;alert(1)&lt;/script&gt;&amp;x</p>", "<b>&lt;script&gt;"],
            "text results of type bytes are escaped like any other text"),
           ('<p tal:condition="exists: rec/info/size">has size</p><b tal:content="nocall: rec/info/size">s</b><i tal:content="rec/info/size">t</i>', {"rec": _Rec()}, ["has size", "<b>42</b>", "<i>42</i>"],
            "exists: / nocall: leave only the FINAL path element uncalled; callables in the middle of a path are called"),
           ('<ul><li tal:repeat="it rows2" tal:content="it/label | default">(untitled)</li></ul>', {"rows2": [{"label": "first"}, {}, {"label": "third"}]},
            ["<li>first</li><li>(untitled)</li><li>third</li>"], "default in a repeated element keeps the template text on that pass, whatever the previous pass produced"),
           ('<span tal:repeat="it rows2" tal:replace="it/label | nothing">x</span>|<em tal:repeat="it rows2" tal:content="it/label | default">d</em>', {"rows2": [{}, {"label": "b"}, {}]},
            ["b|<em>d</em><em>b</em><em>d</em>"], "nothing / default across repeat passes"),
           ('<a href="old" tal:attributes="href string:new; title default" title="t" tal:omit-tag="nothing">L</a>', {}, ['href="new"', 'title="t"', "</a>"], "attributes / default / omit-tag"),
           ('<p tal:define="x string:secret; global y string:g">in</p><b tal:content="x | string:unset">z</b><i tal:content="y">w</i>'
            '<u tal:define="global g1 string:a; l1 string:b; global g3 string:c" tal:content="l1">v</u><s tal:content="l1 | string:unset2">q</s>', {},
            ["<b>unset</b>", "<i>g</i>", "<u>b</u>", "<s>unset2</s>"], "a local define ends with its element also when a global define follows it in the same tal:define"),
           ('<p tal:content="string:[$nv ] - ${nv} end">x</p><b tal:content="string:$num and ${num}">y</b>', {"nv": None, "rec3": {"nv": None}, "num": 7},
            ["<p>[ ] -  end</p>", "<b>7 and 7</b>"], "string: expressions: a $name or ${path} reference whose value is nothing contributes no text"),
           ('<ul><li tal:repeat="row rows3"><a href="/fallback" tal:attributes="href row/url | default" tal:content="row/name">x</a></li></ul>',
            {"rows3": [{"name": "one", "url": "/one"}, {"name": "two"}, {"name": "three", "url": None}, {"name": "four"}]},
            ['<a href="/one">one</a>', '<a href="/fallback">two</a>', "<a>three</a>", '<a href="/fallback">four</a>'],
            "tal:attributes starts from the template's own attributes on every pass of a repeat: default restores the template value whatever the previous pass set"),
           ('<p tal:condition="exists:nope1 | exists:nope2">gone</p><b tal:condition="not:exists:nope1 | exists:nope2">shown</b><i tal:condition="exists:nope1 | exists:rows3">also</i>', {"rows3": [1]},
            ["<b>shown</b>", "<i>also</i>"], "exists: with alternatives: a later alternative that is itself an exists:/not: expression counts by its value, a plain existing path by its existence")]
    for tsrc, extra, needles, why in SEM:
        ctx = simpleTALES.Context()
        for k_, v_ in extra.items():
            ctx.addGlobal(k_, v_)
        out = _io.StringIO()
        try:
            simpleTAL.compileHTMLTemplate(tsrc).expand(ctx, out)
        except Exception as e:  # noqa
            return {"confirmed": True, "scenario": why, "template": tsrc, "raised": repr(e)}
        doc = out.getvalue()
        if not all(n_ in doc for n_ in needles) or "gone" in doc:
            return {"confirmed": True, "scenario": why, "template": tsrc, "output": doc, "expected to contain": needles}
    # ---- a compiled template expanded twice gives the same document twice (nothing of an expansion is kept in the program)
    t2 = simpleTAL.compileHTMLTemplate('<div><a href="/fallback" class="k" tal:attributes="href link | default">l</a></div>')
    docs = []
    for link in ("/first", None, "/third"):
        ctx = simpleTALES.Context()
        if link is not None:
            ctx.addGlobal("link", link)
        out = _io.StringIO()
        t2.expand(ctx, out)
        docs.append(out.getvalue())
    want2 = ['<div><a href="/first" class="k">l</a></div>', '<div><a href="/fallback" class="k">l</a></div>', '<div><a href="/third" class="k">l</a></div>']
    norm_atts = lambda x: x.replace('class="k" href=', 'href=').replace(' class="k"', "")
    if [norm_atts(x) for x in docs] != [norm_atts(x) for x in want2]:
        return {"confirmed": True, "scenario": "the same compiled template expanded three times (link given, link missing -> default, link given): every expansion starts from the template's own attributes",
                "outputs": docs, "expected": want2}
    # ---- a template without TAL: explicitly empty attribute values stay empty, minimised attributes stay attributes
    for tsrc in ('<p><img alt="" src="x.png"><input value="" name="q"><a href="">here</a><option selected>o</option></p>',):
        out = _io.StringIO()
        simpleTAL.compileHTMLTemplate(tsrc).expand(simpleTALES.Context(), out)
        doc = out.getvalue()
        for needle in ('alt=""', 'value=""', 'href=""'):
            if needle not in doc:
                return {"confirmed": True, "scenario": "a template without TAL attributes: the explicitly empty attribute value %s must survive expansion" % needle, "template": tsrc, "output": doc}
        if 'alt="alt"' in doc or 'value="value"' in doc or 'href="href"' in doc:
            return {"confirmed": True, "scenario": "an explicitly empty attribute value was rewritten as a minimised attribute", "template": tsrc, "output": doc}
    # ---- METAL: slot fillings end with their use-macro: a template expanded later through tal:replace="structure ..." shows its own slot defaults
    lib0 = simpleTAL.compileHTMLTemplate('<html><div metal:define-macro="box">B[<span metal:define-slot="body">default body</span>]</div></html>')
    inc0 = simpleTAL.compileHTMLTemplate('<section>S[<span metal:define-slot="body">default body</span>]</section>')
    page0 = simpleTAL.compileHTMLTemplate('<html><div metal:use-macro="lib/macros/box"><span metal:fill-slot="body">filled body</span></div>'
                                          '<p tal:replace="structure inc">x</p><p tal:replace="structure lib/macros/box">y</p></html>')
    ctx = simpleTALES.Context()
    ctx.addGlobal("lib", lib0)
    ctx.addGlobal("inc", inc0)
    out = _io.StringIO()
    page0.expand(ctx, out)
    doc = out.getvalue()
    if doc.count("filled body") != 1 or doc.count("default body") != 2:
        return {"confirmed": True, "scenario": "a use-macro with a fill-slot, then two templates with a same-named define-slot expanded through tal:replace=\"structure ...\": only the use-macro shows the filling",
                "output": doc}
    # ---- METAL: a fill-slot belongs to the nearest enclosing use-macro
    lib = simpleTAL.compileHTMLTemplate('<html><div metal:define-macro="outer">O[<span metal:define-slot="body">obody</span>|<span metal:define-slot="foot">ofoot</span>]</div>'
                                        '<p metal:define-macro="inner">I[<i metal:define-slot="body">ibody</i>|<i metal:define-slot="foot">ifoot</i>]</p></html>')
    page = simpleTAL.compileHTMLTemplate('<html><div metal:use-macro="lib/macros/outer"><span metal:fill-slot="body"><p metal:use-macro="lib/macros/inner">'
                                         '<i metal:fill-slot="foot"><q>Q</q></i></p></span></div></html>')
    ctx = simpleTALES.Context()
    ctx.addGlobal("lib", lib)
    out = _io.StringIO()
    page.expand(ctx, out)
    doc = out.getvalue()
    if not ("ofoot" in doc and "ifoot" not in doc and "ibody" in doc and "obody" not in doc and "<q>Q</q>" in doc and doc.index("I[") < doc.index("<q>Q</q>") < doc.index("ofoot")):
        return {"confirmed": True, "scenario": "nested metal:use-macro: the inner fill-slot must fill the inner macro's slot, the outer macro's unfilled slot keeps its default", "output": doc}
    # ---- the python: switch as the TAL file handler reads it from the configuration
    import shutil as _sh, tempfile as _tf
    import pygopherd.handlers.base as _hb
    import pygopherd.handlers.HandlerMultiplexer as _hm
    top = _tf.mkdtemp(prefix="pyvc-tal-", dir="/var/tmp")
    try:
        open(os.path.join(top, "page.html.tal"), "w").write('<html><p tal:content="python: open(%r, \'a\').write(\'x\') or \'RAN\'">static</p></html>' % os.path.join(top, "canary"))
        for word, expect_run in (("false", False), ("no", False), ("off", False), ("0", False), ("False", False), ("true", True), ("1", True), ("yes", True)):
            cfg = _config({})
            cfg.set("pygopherd", "root", top)
            if not cfg.has_section("handlers.tal.TALFileHandler"):
                cfg.add_section("handlers.tal.TALFileHandler")
            cfg.set("handlers.tal.TALFileHandler", "allowpythonpath", word)
            cfg.set("handlers.HandlerMultiplexer", "handlers", "[tal.TALFileHandler, file.FileHandler]")
            _hb.rootpath = None; _hm.rootpath = None; _hm.handlers = None
            from pygopherd import initialization as _init, logger as _logger
            _logger.log = lambda m: None
            _init.init_mimetypes(cfg)
            if os.path.exists(os.path.join(top, "canary")):
                os.unlink(os.path.join(top, "canary"))
            body, _l = _serve(b"/page.html.tal\r\n", cfg)
            ran = os.path.exists(os.path.join(top, "canary")) or b"RAN" in body
            if ran != expect_run:
                return {"confirmed": True, "scenario": "allowpythonpath = %s in [handlers.tal.TALFileHandler]: python: expression %s" % (word, "was evaluated" if ran else "was not evaluated"),
                        "response": repr(body[:200])}
    finally:
        _sh.rmtree(top, ignore_errors=True)
        _hb.rootpath = None; _hm.rootpath = None; _hm.handlers = None
    # ---- TAL-free documents: equivalent output, fixed point
    for docsrc in ('<html><head><title>T &amp; U</title></head><body class="x y"><p>a <b>b</b> &lt;c&gt;</p><br><img src="i.png" alt="q&quot;q"><ul><li>1<li>2</ul></body></html>',
                   '<div><p>unclosed<p>again</div><input type="text" value="a&amp;b">',
                   '<p>static &#60;b&#62;not bold&#60;/b&#62; &#x3c;img src=x&#x3e; &#38;amp; &lt;i&gt; done</p>'):
        o1 = _io.StringIO(); simpleTAL.compileHTMLTemplate(docsrc).expand(simpleTALES.Context(), o1)
        o2 = _io.StringIO(); simpleTAL.compileHTMLTemplate(o1.getvalue()).expand(simpleTALES.Context(), o2)
        if skeleton(o1.getvalue()) != skeleton(docsrc) or o1.getvalue() != o2.getvalue():
            return {"confirmed": True, "scenario": "a TAL-free document is not reproduced / is not a fixed point", "document": docsrc, "first": o1.getvalue(), "second": o2.getvalue()}
    # ---- repeat numbering (exhaustive over the supported range)
    def roman(k):
        out_ = ""
        for sym, val in (("m", 1000), ("cm", 900), ("d", 500), ("cd", 400), ("c", 100), ("xc", 90), ("l", 50), ("xl", 40), ("x", 10), ("ix", 9), ("v", 5), ("iv", 4), ("i", 1)):
            while k >= val:
                out_ += sym
                k -= val
        return out_

    def letter(k):
        s_ = ""
        while True:
            k, off = divmod(k, 26)
            s_ = chr(ord("a") + off) + s_
            if not k:
                return s_

    rv = simpleTALES.RepeatVariable(list(range(4000)))
    for pos in range(4000):
        rv.position = pos
        if rv.getLowerRoman() != roman(pos + 1) or rv.getUpperRoman() != roman(pos + 1).upper() or rv.getLowerLetter() != letter(pos) or rv.getUpperLetter() != letter(pos).upper():
            return {"confirmed": True, "scenario": "repeat variable numbering at index %d" % pos, "roman": rv.getLowerRoman(), "letter": rv.getLowerLetter()}
    return {"confirmed": None, "note": "%d expansions of %d generated templates passed" % (n, len(templates))}


REALISERS.append(("simpletal/", r_tal))
REALISERS.append(("pygopherd/handlers/tal.py::", r_tal))


# ------------------------------------------------------------------- search strings through every protocol (C06 stand-in)
def r_search(d):
    """The same search string, submitted through each protocol's own mechanism (tab field, searchrequest parameter,
    URL query, request body), must reach the handler as the same string."""
    import shutil, tempfile
    import pygopherd.handlers.base as hb
    import pygopherd.handlers.HandlerMultiplexer as hm
    from pygopherd import testutil, logger
    logger.log = lambda m: None
    top = tempfile.mkdtemp(prefix="pyvc-search-", dir="/var/tmp")
    try:
        open(os.path.join(top, "target.txt"), "w").write("x\n")
        cfg = _config({})
        cfg.set("pygopherd", "root", top)
        hb.rootpath = None; hm.rootpath = None; hm.handlers = None
        for s in ["plain words", "c++ faq", "1+1=2", "a&b=c", "100% sure", "tag#frag", "question?mark", "café au lait", "semi;colon/slash", "back\\slash \"quoted\" 'single'"]:
            raw = s.encode("utf-8")
            pct_all = "".join("%%%02X" % b for b in raw)
            q3986 = "".join(chr(b) if (chr(b).isalnum() or chr(b) in "-._~+=&;/?:@!$'()*,") and b < 128 else "%%%02X" % b for b in raw)
            views = [("gopher", ("/target.txt\t%s\r\n" % s).encode("utf-8"), False),
                     ("gopher+", ("/target.txt\t%s\t+\r\n" % s).encode("utf-8"), False),
                     ("http", ("GET /target.txt?searchrequest=%s HTTP/1.0\r\n\r\n" % pct_all).encode(), False),
                     ("wap", ("GET /wap/target.txt?searchrequest=%s HTTP/1.0\r\n\r\n" % pct_all).encode(), False),
                     ("gemini", ("gemini://localhost/target.txt?%s\r\n" % q3986).encode(), True),
                     ("spartan", b"localhost /target.txt %d\r\n" % len(raw) + raw, False)]
            seen = {}
            for name, req, tls in views:
                proto = testutil.get_testing_protocol(req.decode("utf-8", "surrogateescape"), cfg, use_tls=tls)
                try:
                    proto.handle()
                    seen[name] = proto.gethandler().searchrequest
                except Exception as e:  # noqa
                    seen[name] = "RAISED %r" % (e,)
            if len(set(seen.values())) != 1 or seen["gopher"] != s:
                return {"confirmed": True, "scenario": "search string %r submitted through each protocol's own mechanism" % s, "handler received": seen}
        return {"confirmed": None, "note": "search strings agree in all protocols"}
    finally:
        shutil.rmtree(top, ignore_errors=True)
        hb.rootpath = None; hm.rootpath = None; hm.handlers = None


for _q in ("pygopherd/protocols/gemini.py::GeminiProtocol.handle", "pygopherd/protocols/spartan.py::SpartanProtocol.handle",
           "pygopherd/protocols/rfc1436.py::GopherProtocol.handle", "pygopherd/protocols/gopherp.py::GopherPlusProtocol.handle"):
    REALISERS.append((_q, (lambda d, _prev=find(_q): (_first_confirmed(r_search, _prev)(d) if d.get("kind") == "standin" else _prev(d)))))
_prev_http = find("pygopherd/protocols/http.py::HTTPProtocol.handle")
REALISERS.append(("pygopherd/protocols/http.py::HTTPProtocol.handle", lambda d: (_first_confirmed(r_search, _prev_http)(d) if d.get("kind") == "standin" else _prev_http(d))))


# ------------------------------------------------------------------- sidecar files (C15 / C08 stand-in)
def r_sidecars(d):
    """Extended-attribute sidecars: files with blank lines, trailing blanks, several paragraphs; entries whose names
    differ only by an extension; a directory abstract.  Every Gopher+ block must carry exactly the lines of
    <name><ext> (right-stripped) and an entry without a sidecar of its own must have no block."""
    import shutil, tempfile
    import pygopherd.handlers.base as hb
    import pygopherd.handlers.HandlerMultiplexer as hm
    from pygopherd import gopherentry
    top = tempfile.mkdtemp(prefix="pyvc-ea-", dir="/var/tmp")
    try:
        cfg = _config({})
        cfg.set("pygopherd", "root", top)
        hb.rootpath = None; hm.rootpath = None; hm.handlers = None
        gopherentry.eaexts = None
        texts = {"report.keywords": "".join("line %04d of a long keyword file, padded so that 20480 is no multiple .....\n" % i for i in range(400)),
                 "plain.txt.3d": "x" * 70 + " filler words +ADMIN: Admin: Mallory <m@evil.example> and more filler text so that the line is long enough to be folded twice +ABSTRACT: injected\n",
                 "notes.txt.abstract": "First paragraph.\n\nSecond paragraph   \n  indented\n\n\nlast", "notes.txt.keywords": "k1\n\nk2\n",
                 "report.abstract": "Abstract of the extensionless report\n", "sub/.abstract": "Directory abstract\n\nwith a blank line\n"}
        # compressed copies next to a document that has sidecars; sidecar files of length zero (a block without lines)
        texts.update({"paper.txt.abstract": "About the paper\n", "paper.txt.keywords": "paper\n", "data.tar.3d": "3d of the tar\n", "data.tar.gz.abstract": "Own abstract of the tarball\n",
                      "empty.txt.keywords": "", "emptydir/.3d": "", "empty.txt.abstract": "has an abstract too\n"})
        os.makedirs(os.path.join(top, "sub"))
        os.makedirs(os.path.join(top, "emptydir"))
        for n in ("notes.txt", "report", "report.txt", "plain.txt", "sub/x.txt", "paper.txt", "paper.txt.gz", "data.tar", "data.tar.gz", "paper.tgz", "empty.txt", "emptydir/y.txt"):
            open(os.path.join(top, n), "w").write("data\n")
        for n, t in texts.items():
            open(os.path.join(top, n), "w").write(t)
        exts = {".abstract": "ABSTRACT", ".keywords": "KEYWORDS", ".ask": "ASK", ".3d": "3D"}
        from pygopherd import initialization as _ini_sc, logger as _lg_sc
        _lg_sc.log = lambda m: None
        _ini_sc.init_mimetypes(cfg)
        for sel in ("/notes.txt", "/report", "/report.txt", "/plain.txt", "/sub", "/paper.txt", "/paper.txt.gz", "/data.tar", "/data.tar.gz", "/paper.tgz", "/empty.txt", "/emptydir"):
            out, _l = _serve(sel.encode() + b"\t!\r\n", cfg)
            if any("EXCEPTION" in l_ and "FileNotFound" not in l_ for l_ in _l) or not out.startswith(b"+-2\r\n+INFO: "):
                return {"confirmed": True, "scenario": "item information request for %s is not answered with the item's blocks" % sel, "answer": repr(out[:200]), "log": _l[-1:]}
            blocks = {}
            cur = None
            for line in out.decode("utf-8", "replace").split("\r\n"):
                if line.startswith("+") and ":" in line and not line.startswith("+-"):
                    cur = line[1:line.index(":")]
                    blocks[cur] = []
                elif cur is not None and line.startswith(" "):
                    blocks[cur].append(line[1:])
            for ext, name in exts.items():
                side = os.path.join(top, (sel[1:] + "/" if sel in ("/sub", "/emptydir") else sel[1:]) + ext)
                if os.path.exists(side):
                    want = [x.rstrip() for x in open(side).read().split("\n")]
                    if want and want[-1] == "":
                        want = want[:-1] if (open(side).read().endswith("\n") or open(side).read() == "") else want
                    got_b = blocks.get(name)
                    big = os.path.getsize(side) > 20480
                    # a sidecar beyond the 20480-byte read hint is cut at a line boundary: whole lines, in order, from the start
                    ok_b = (got_b == want) if not big else (got_b is not None and len(got_b) >= 200 and got_b == want[:len(got_b)])
                    if not ok_b:
                        return {"confirmed": True, "scenario": "Gopher+ block +%s of %s vs. the lines of its sidecar file" % (name, sel), "block": (got_b or [])[-3:], "file lines": want[max(0, len(got_b or []) - 3):len(got_b or []) + 1]}
                elif name in blocks:
                    return {"confirmed": True, "scenario": "%s has no %s sidecar of its own but its item information carries a +%s block" % (sel, ext, name), "block": blocks[name]}
        # a sidecar added (or removed) between two requests shows in the second answer: nothing about sidecars is remembered
        open(os.path.join(top, "plain.txt.abstract"), "w").write("Added later\n")
        os.unlink(os.path.join(top, "notes.txt.keywords"))
        out, _l = _serve(b"/plain.txt\t!\r\n", cfg)
        if b"+ABSTRACT:\r\n Added later" not in out:
            return {"confirmed": True, "scenario": "plain.txt.abstract was created after /plain.txt had been looked at once: the second item-information answer has no +ABSTRACT block", "answer": repr(out[:300])}
        out, _l = _serve(b"/notes.txt\t!\r\n", cfg)
        if b"+KEYWORDS" in out:
            return {"confirmed": True, "scenario": "notes.txt.keywords was deleted between two requests: the second answer still carries +KEYWORDS", "answer": repr(out[:300])}
        return {"confirmed": None, "note": "sidecar blocks agree with their files"}
    finally:
        shutil.rmtree(top, ignore_errors=True)
        hb.rootpath = None; hm.rootpath = None; hm.handlers = None
        gopherentry.eaexts = None


REALISERS.append(("pygopherd/gopherentry.py::GopherEntry.handleeaext", r_sidecars))


# ------------------------------------------------------------------- hostile mail subjects (C13 stand-in)
def r_mail(d):
    """A mailbox whose subjects are folded, carry TABs, markup, and RFC 2047 encoded words hiding CR LF '+ADMIN:':
    the Gopher+ listing must have exactly one +INFO line per message and no block header a subject smuggled in;
    the plain listing exactly one line per message; the HTML listing no element from a subject."""
    import shutil, tempfile
    import pygopherd.handlers.base as hb
    import pygopherd.handlers.HandlerMultiplexer as hm
    top = tempfile.mkdtemp(prefix="pyvc-mail-", dir="/var/tmp")
    try:
        cfg = _config({})
        cfg.set("pygopherd", "root", top)
        hb.rootpath = None; hm.rootpath = None; hm.handlers = None
        subjects = ["plain subject", "folded\n\tsubject line", "tab\tinside", "<script>alert(1)</script> & \"q\"",
                    "=?utf-8?Q?hidden=0D=0A+ADMIN:_x=0D=0A_Admin:_evil?=", "=?utf-8?B?YQ0KK0FCU1RSQUNUOg0KIGV2aWw=?=", ""]
        with open(os.path.join(top, "box.mbox"), "w", newline="") as fh:
            for i, s in enumerate(subjects):
                fh.write("From alice@example.org Mon Jan  1 00:00:0%d 2024\nSubject: %s\n\nbody %d\n\n" % (i, s, i))
        out, _l = _serve(b"/box.mbox\t$\r\n", cfg)
        lines = out.decode("utf-8", "replace").split("\r\n")
        infos = [l for l in lines if l.startswith("+INFO:")]
        heads = [l for l in lines if l.startswith("+") and not l.startswith("+INFO:") and not l.startswith("+-")]
        if len(infos) != len(subjects):
            return {"confirmed": True, "scenario": "Gopher+ listing of a mailbox with %d messages has %d +INFO lines" % (len(subjects), len(infos)), "listing": out[:600].decode("utf-8", "replace")}
        for l in infos:
            if l.count("\t") < 3:
                return {"confirmed": True, "scenario": "a mail subject broke an +INFO line", "line": l}
        allowed = {"+ADMIN:", "+VIEWS:"}
        if any(h.split(":")[0] + ":" not in allowed for h in heads) or len([h for h in heads if h.startswith("+ADMIN:")]) != len(subjects):
            return {"confirmed": True, "scenario": "a mail subject passed for a Gopher+ block header", "block headers": heads[:20]}
        out, _l = _serve(b"/box.mbox\r\n", cfg)
        n = [l for l in out.split(b"\r\n") if l and l != b"."]
        if len(n) != len(subjects):
            return {"confirmed": True, "scenario": "plain listing of a mailbox with %d messages has %d lines" % (len(subjects), len(n))}
        out, _l = _serve(b"GET /box.mbox HTTP/1.0\r\n\r\n", cfg)
        if b"<script" in out.lower():
            return {"confirmed": True, "scenario": "a mail subject became markup in the HTML listing"}
        # a message number of any length is answered (int() refuses digit strings beyond a few thousand digits)
        out, logs = _serve(b"/box.mbox|/MBOX-MESSAGE/" + b"9" * 5000 + b"\r\n", cfg)
        if not out.startswith(b"3"):
            return {"confirmed": True, "scenario": "a message number of 5000 digits is not answered with a not-found line", "response": repr(out[:120]), "log": logs[-1:]}
        # a message without any header line (an empty header section) is still a message of its folder
        with open(os.path.join(top, "bare.mbox"), "w", newline="") as fh:
            fh.write("From alice@example.org Mon Jan  1 00:00:00 2024\n\nbody without headers\n\nFrom bob@example.org Mon Jan  1 00:00:01 2024\nSubject: second\n\nbody\n\n")
        out, logs = _serve(b"/bare.mbox\r\n", cfg)
        if len([l for l in out.split(b"\r\n") if l and l != b"."]) != 2:
            return {"confirmed": True, "scenario": "a mailbox whose first message has no header lines: the folder listing must have two lines", "response": repr(out[:200]), "log": logs[-1:]}
        # every message selector is answered: the listed ones with the message, numbers beyond the end with not-found
        for num, expect_found in ((1, True), (len(subjects), True), (len(subjects) + 1, False), (99, False), (0, False)):
            out, logs = _serve(b"/box.mbox|/MBOX-MESSAGE/%d\r\n" % num, cfg)
            if expect_found and not out.startswith(b"From ") and b"Subject:" not in out:
                return {"confirmed": True, "scenario": "message %d of %d is listed but not served" % (num, len(subjects)), "response": repr(out[:160]), "log": logs[-1:]}
            if not expect_found and not out.startswith(b"3"):
                return {"confirmed": True, "scenario": "request for message %d of a mailbox with %d messages is not answered with a not-found line" % (num, len(subjects)),
                        "response": repr(out[:160]), "log": logs[-1:]}
        # whatever follows the message flag is answered (digits int() refuses: superscripts, circled digits; the counter-model's own argument)
        maild = os.path.join(top, "md")
        for sub in ("new", "cur", "tmp"):
            os.makedirs(os.path.join(maild, sub))
        open(os.path.join(maild, "new", "1"), "w").write("Subject: one\n\nbody\n")
        args = ["\u00b2", "\u2462", "1\u00b2", "\u0663", "\u00bd", "-1", "+1", " 1", "1 ", "1_0", "0x1", "1\n", "\uff11"]
        mv = (d.get("model") or {}).get("self.selectorargs")
        if isinstance(mv, str):
            for flag in ("/MBOX-MESSAGE/", "/MAILDIR-MESSAGE/"):
                if mv.startswith(flag):
                    args.insert(0, mv[len(flag):])
        for a in args:
            for sel in ("/box.mbox|/MBOX-MESSAGE/" + a, "/md|/MAILDIR-MESSAGE/" + a):
                raw = sel.encode("utf-8", "surrogateescape")
                for label, req in (("gopher", raw + b"\r\n"), ("http", b"GET " + urllib_quote(sel).encode() + b" HTTP/1.0\r\n\r\n")):
                    try:
                        out, logs = _serve(req, cfg)
                    except BaseException as e:  # noqa
                        out, logs = b"", ["RAISED " + repr(e)]
                    bad = [l for l in logs if ("EXCEPTION" in l and "FileNotFound" not in l) or l.startswith("RAISED")]
                    if bad or not out:
                        return {"confirmed": True, "scenario": "message selector %r (%s) is not answered with one well-formed response" % (sel, label), "response": repr(out[:120]), "log": bad[-1:]}
        return {"confirmed": None, "note": "mail subjects stay inside their lines"}
    finally:
        shutil.rmtree(top, ignore_errors=True)
        hb.rootpath = None; hm.rootpath = None; hm.handlers = None


REALISERS.append(("pygopherd/handlers/mbox.py::MessageHandler.get", r_mail))
REALISERS.append(("pygopherd/handlers/mbox.py::MessageHandler.canhandlerequest", r_mail))
for _m in ("getfspath", "open", "stat", "listdir", "isdir", "isfile", "exists"):
    REALISERS.append(("pygopherd/handlers/base.py::VFS_Real." + _m, lambda d: (_first_confirmed(r_c01_audit, r_site_crawl)(d) if d.get("kind") == "standin" else r_c01_audit(d))))


# ------------------------------------------------------------------- whole start-up (C19 stand-in)
def r_startup(d):
    """initialize() on a scratch configuration with the privileged entry points, the user/group lookups and the socket bind
    replaced by recorders: for every combination of usechroot/setuid/setgid, with the bind succeeding, failing once or
    failing for good with EADDRINUSE, and with each privileged call failing in turn, either start-up aborts before anything
    is given up, or the recorded order is bind, [load_cert_chain], chroot, chdir, setgroups, setregid, setreuid and nothing
    is bound afterwards; a failing step aborts start-up."""
    import errno, itertools, shutil, socketserver, tempfile, time as _time
    import pygopherd.initialization as init
    from pygopherd import logger
    import pwd, grp
    top = tempfile.mkdtemp(prefix="pyvc-start-", dir="/var/tmp")
    real = {"os": {k: getattr(os, k) for k in ("chroot", "chdir", "setgroups", "setregid", "setreuid", "setpgrp") if hasattr(os, k)},
            "bind": socketserver.TCPServer.server_bind, "getpwnam": pwd.getpwnam, "getgrnam": grp.getgrnam, "sleep": _time.sleep, "log": getattr(logger, "log", None),
            "fork": os.fork}
    PRIV = ("chroot", "chdir", "setgroups", "setregid", "setreuid")
    try:
        base = open(os.path.join(d.get("repo") or ".", "conf", "pygopherd.conf")).read() if os.path.exists(os.path.join(d.get("repo") or ".", "conf", "pygopherd.conf")) else open("conf/pygopherd.conf").read()
        for usechroot, su, sg in itertools.product((False, True), repeat=3):
            for bind_failures in (0, 1, 99):
                for failing in (None,) + PRIV:
                    if bind_failures and failing:
                        continue
                    if (bind_failures or failing) and (usechroot, su, sg) not in ((True, True, True), (False, True, False), (False, False, True), (False, False, False)):
                        continue
                    cp = configparser.ConfigParser()
                    cp.read_string(base)
                    cp.set("pygopherd", "root", top)
                    cp.set("pygopherd", "port", "0")
                    cp.set("pygopherd", "interface", "127.0.0.1")
                    cp.set("pygopherd", "detach", "no")
                    cp.set("pygopherd", "usechroot", "yes" if usechroot else "no")
                    for opt, on in (("setuid", su), ("setgid", sg)):
                        cp.remove_option("pygopherd", opt)
                        if on:
                            cp.set("pygopherd", opt, "gopher")
                    cp.remove_option("pygopherd", "pidfile")
                    conf = os.path.join(top, "t.conf")
                    with open(conf, "w") as fh:
                        cp.write(fh)
                    trace = []
                    state = {"fails": bind_failures}

                    def mk(name):
                        def f(*a):
                            trace.append(name)
                            if failing == name:
                                raise PermissionError(errno.EPERM, "Operation not permitted")
                        return f
                    for k in PRIV:
                        setattr(os, k, mk(k))
                    os.setpgrp = lambda: None
                    pwd.getpwnam = lambda n: (n, "x", 1001, 1001, "", "/", "/bin/false")
                    grp.getgrnam = lambda n: (n, "x", 1001, [])
                    _time.sleep = lambda s_: None

                    def fake_bind(self_):
                        if state["fails"] > 0:
                            state["fails"] -= 1
                            trace.append("bind-failed")
                            raise OSError(errno.EADDRINUSE, "Address already in use")
                        trace.append("bind")
                        return real["bind"](self_)
                    socketserver.TCPServer.server_bind = fake_bind
                    logger.log = lambda m: None
                    raised, server = None, None
                    cwd = os.getcwd()
                    try:
                        server = init.initialize(conf)
                    except BaseException as e:  # noqa
                        raised = e
                    finally:
                        for k, v in real["os"].items():
                            setattr(os, k, v)
                        socketserver.TCPServer.server_bind = real["bind"]
                        pwd.getpwnam, grp.getgrnam, _time.sleep = real["getpwnam"], real["getgrnam"], real["sleep"]
                        os.chdir(cwd)
                        if server is not None:
                            try:
                                server.server_close()
                            except Exception:  # noqa
                                pass
                    what = "usechroot=%s setuid=%s setgid=%s, bind failing %s, %s failing" % (usechroot, su, sg, {0: "never", 1: "once", 99: "always"}[bind_failures], failing or "nothing")
                    privs = [t for t in trace if t in PRIV]
                    want = (["chroot", "chdir"] if usechroot else []) + (["setgroups"] if (su or sg) else []) + (["setregid"] if sg else []) + (["setreuid"] if su else [])
                    if bind_failures:
                        # a listening address that cannot be bound: start-up fails, and in no case is anything bound after a privilege was given up
                        first_priv = min([trace.index(p) for p in privs] or [len(trace)])
                        if any(t in ("bind", "bind-failed") for t in trace[first_priv:]):
                            return {"confirmed": True, "scenario": what + ": the socket is bound after privileges were given up", "trace": trace}
                        if raised is None and "bind" not in trace:
                            return {"confirmed": True, "scenario": what + ": start-up succeeded without a bound socket", "trace": trace}
                        if bind_failures == 99 and raised is None:
                            return {"confirmed": True, "scenario": what + ": start-up did not abort", "trace": trace}
                        continue
                    if failing is not None and failing in want:
                        if raised is None:
                            return {"confirmed": True, "scenario": what + ": start-up did not abort", "trace": trace}
                        if privs != want[:want.index(failing) + 1]:
                            return {"confirmed": True, "scenario": what + ": privileged calls after (or out of order before) the failing step", "trace": trace, "expected": want[:want.index(failing) + 1]}
                        continue
                    if raised is not None:
                        return {"confirmed": True, "scenario": what + ": start-up raised %r" % raised, "trace": trace}
                    if privs != want or "bind" not in trace or (privs and trace.index("bind") > trace.index(privs[0])):
                        return {"confirmed": True, "scenario": what + ": order of bind and privileged calls", "trace": trace, "expected": ["bind"] + want}
        return {"confirmed": None, "note": "start-up order and abort-on-failure hold for 8 option combinations x {bind ok, bind busy once, bind busy for good, each privileged call failing}"}
    finally:
        for k, v in real["os"].items():
            setattr(os, k, v)
        socketserver.TCPServer.server_bind = real["bind"]
        pwd.getpwnam, grp.getgrnam, _time.sleep, logger.log = real["getpwnam"], real["getgrnam"], real["sleep"], real["log"]
        shutil.rmtree(top, ignore_errors=True)


for _q3 in ("pygopherd/initialization.py::initialize", "pygopherd/initialization.py::get_server", "pygopherd/initialization.py::init_"):
    REALISERS.append((_q3, lambda d: (r_startup(d) if d.get("kind") == "standin" else {"confirmed": None, "note": "no counter-model replay for this start-up step"})))
_prev_is = r_init_security
REALISERS.append(("pygopherd/initialization.py::init_security", lambda d: (_first_confirmed(r_startup)(d) if d.get("kind") == "standin" else _prev_is(d))))


# ------------------------------------------------------------------- configured MIME tables (C04 stand-in)
def r_mimetypes(d):
    """[pygopherd] mimetypes / encoding are what decides the advertised type: with the shipped tables and with an
    encoding list that overrides the built-in one, the type of every name (HTTP Content-Type, Gopher+ +VIEWS) is the
    one a reference reading of the configured tables gives."""
    import mimetypes as _mt, shutil, tempfile
    import pygopherd.handlers.base as hb
    import pygopherd.handlers.HandlerMultiplexer as hm
    from pygopherd import initialization, logger
    logger.log = lambda m: None
    top = tempfile.mkdtemp(prefix="pyvc-mime-", dir="/var/tmp")
    try:
        names = ["a.txt", "b.html", "c.tar.gz", "backup.tar.xz", "notes.txt.bz2", "old.txt.Z", "page.html.br", "d.tgz", "e.gz", "f.unknownext", "g.TXT", "h.tar.Z", "noext"]
        for n_ in names:
            open(os.path.join(top, n_), "wb").write(b"x\n")
        table = os.path.join(top, ".mime.types")
        open(table, "w").write("text/x-special\tunknownext\napplication/x-xz\txz\n")
        for enc_opt, extra_files in ((None, []), ("[('.gz', 'gzip')]", []), ("[('.gz', 'gzip'), ('.Z', 'compress')]", [table])):
            cfg = _config({})
            cfg.set("pygopherd", "root", top)
            cfg.set("handlers.dir.DirHandler", "cachetime", "0")
            if enc_opt is not None:
                cfg.set("pygopherd", "encoding", enc_opt)
            if extra_files:
                cfg.set("pygopherd", "mimetypes", cfg.get("pygopherd", "mimetypes") + ":" + ":".join(extra_files))
            hb.rootpath = None; hm.rootpath = None; hm.handlers = None
            import pygopherd.gopherentry as _ge
            _ge.mapping = None
            ref_enc = dict(eval(cfg.get("pygopherd", "encoding"), {"mimetypes": _mt}))
            initialization.init_mimetypes(cfg)
            ref = _mt.MimeTypes()
            ref.encodings_map = ref_enc
            for f_ in cfg.get("pygopherd", "mimetypes").split(":"):
                if os.path.isfile(f_) and os.access(f_, os.R_OK):
                    ref.read(f_)
            default = cfg.get("GopherEntry", "defaultmimetype")
            for n_ in names:
                ty, enc = ref.guess_type("/" + n_, strict=False)
                expect = "application/octet-stream" if enc else (ty or default)
                resp, _l = _serve(b"HEAD /" + n_.encode() + b" HTTP/1.0\r\n\r\n", cfg)
                got = None
                for h_ in resp.split(b"\r\n"):
                    if h_.lower().startswith(b"content-type:"):
                        got = h_.split(b":", 1)[1].strip().decode()
                if got != expect:
                    return {"confirmed": True, "scenario": "encoding = %s, mimetypes += %s: %s is advertised (HTTP) as %r, the configured tables say %r" % (enc_opt or "(shipped)", [os.path.basename(x) for x in extra_files], n_, got, expect)}
                # the item type shown in menus is the first rule of the configured [GopherEntry] mapping whose pattern matches the MIME type
                import re as _re_m
                rules = eval(cfg.get("GopherEntry", "mapping"))
                want_type = next((t_ for p_, t_ in rules if _re_m.match(p_, expect)), "0")
                menu, _l = _serve(b"/\r\n", cfg)
                got_type = None
                for l_ in menu.split(b"\r\n"):
                    f_ = l_.split(b"\t")
                    if len(f_) >= 2 and f_[1] == b"/" + n_.encode():
                        got_type = l_[:1].decode()
                if got_type != want_type:
                    return {"confirmed": True, "scenario": "encoding = %s: %s (%s) is shown with item type %r in the menu, the configured mapping says %r" % (enc_opt or "(shipped)", n_, expect, got_type, want_type)}
                info, _l = _serve(b"/" + n_.encode() + b"\t!\r\n", cfg)
                views = [l for l in info.decode("latin-1").split("\r\n") if l.startswith(" ") and "/" in l and ":" in l]
                if not any(l.strip().startswith(expect + ":") or l.strip().startswith(expect + " ") for l in views):
                    return {"confirmed": True, "scenario": "encoding = %s: +VIEWS of %s does not name the configured type %r" % (enc_opt or "(shipped)", n_, expect), "views": views[:3]}
        return {"confirmed": None, "note": "advertised types follow the configured tables"}
    finally:
        shutil.rmtree(top, ignore_errors=True)
        hb.rootpath = None; hm.rootpath = None; hm.handlers = None


REALISERS.append(("pygopherd/initialization.py::init_mimetypes", r_mimetypes))
REALISERS.append(("pygopherd/gopherentry.py::GopherEntry.guesstype", lambda d: (r_mimetypes(d) if d.get("kind") == "standin" else {"confirmed": None, "note": "no counter-model replay"})))
REALISERS.append(("pygopherd/gopherentry.py::GopherEntry.populatefromfs", lambda d: (r_mimetypes(d) if d.get("kind") == "standin" else {"confirmed": None, "note": "no counter-model replay"})))


# ------------------------------------------------------------------- real sockets, clear text and TLS (C04 stand-in)
def r_real_sockets(d):
    """The production server classes on an ephemeral localhost port with the repository's demo certificate: the same
    documents fetched in clear text and over TLS (Gopher, HTTP(S), Gemini) must be the file's bytes.  Sees what an
    in-memory socket cannot: anything written below the TLS layer, short writes, descriptor misuse."""
    import shutil, socket, ssl, tempfile, threading
    repo = os.environ.get("PYVC_REPO", os.getcwd())
    top = tempfile.mkdtemp(prefix="pyvc-sock-", dir="/var/tmp")
    server = None
    try:
        import pygopherd.handlers.base as hb
        import pygopherd.handlers.HandlerMultiplexer as hm
        from pygopherd import initialization, logger
        from pygopherd.server import GopherRequestHandler, ThreadingTCPServer
        files = {"small.txt": b"hello, world\r\nsecond line\n", "block.bin": bytes(range(256)) * 16,
                 "large.bin": (bytes(range(256)) + b"\x00\xff\r\n.\r\n") * 1200 + b"tail", "empty.bin": b""}
        for n, c in files.items():
            open(os.path.join(top, n), "wb").write(c)
        cfg = _config({})
        cfg.set("pygopherd", "root", top)
        hb.rootpath = None; hm.rootpath = None; hm.handlers = None
        logger.log = lambda m: None
        initialization.init_mimetypes(cfg)
        ctx = ssl.create_default_context(ssl.Purpose.CLIENT_AUTH)
        ctx.load_cert_chain(os.path.join(repo, "testdata", "demo.crt"), os.path.join(repo, "testdata", "demo.key"))
        server = ThreadingTCPServer(cfg, ("127.0.0.1", 0), GopherRequestHandler, context=ctx)
        server.daemon_threads = True
        escaped = []
        server.handle_error = lambda request, client_address: escaped.append(repr(sys.exc_info()[1]))
        threading.Thread(target=server.serve_forever, daemon=True).start()
        addr = server.server_address[:2]

        def fetch(req, tls):
            raw = socket.create_connection(addr, timeout=20)
            try:
                sock = raw
                if tls:
                    c = ssl.SSLContext(ssl.PROTOCOL_TLS_CLIENT)
                    c.check_hostname = False
                    c.verify_mode = ssl.CERT_NONE
                    sock = c.wrap_socket(raw)
                sock.sendall(req)
                out = []
                while True:
                    try:
                        data = sock.recv(65536)
                    except (ssl.SSLError, ConnectionResetError, socket.timeout) as e:
                        out.append(b"<<stream error: %s>>" % str(e).encode())
                        break
                    if not data:
                        break
                    out.append(data)
                return b"".join(out)
            finally:
                raw.close()

        def after(sep, prefix):
            def f(resp):
                head, s_, body = resp.partition(sep)
                return body if s_ and head.startswith(prefix) else None
            return f

        cases = [("gopher", b"/%s\r\n", False, lambda r: r), ("gopher over TLS", b"/%s\r\n", True, lambda r: r),
                 ("http", b"GET /%s HTTP/1.0\r\n\r\n", False, after(b"\r\n\r\n", b"HTTP/1.0 200")), ("https", b"GET /%s HTTP/1.0\r\n\r\n", True, after(b"\r\n\r\n", b"HTTP/1.0 200")),
                 ("gemini", b"gemini://localhost/%s\r\n", True, after(b"\r\n", b"20 "))]
        for n, content in files.items():
            for label, tmpl, tls, body in cases:
                resp = fetch(tmpl % n.encode(), tls)
                got = body(resp)
                if got != content:
                    return {"confirmed": True, "scenario": "%s fetched through %s on a real socket is not the file's bytes" % (n, label),
                            "expected bytes": len(content), "received": (len(got) if got is not None else None), "response head": repr(resp[:120])}
        # long first lines: the protocol is chosen from the whole line, whatever its length (the distinguishing token of
        # HTTP, Gopher+ and Spartan is at its end)
        for pad in (900, 1100, 3000, 9000):
            q = b"x" * pad
            longcases = [("http", b"GET /small.txt?" + q + b" HTTP/1.0\r\n\r\n", False, lambda r: r.startswith(b"HTTP/1.0 200") and r.endswith(files["small.txt"])),
                         ("https", b"GET /small.txt?" + q + b" HTTP/1.0\r\n\r\n", True, lambda r: r.startswith(b"HTTP/1.0 200") and r.endswith(files["small.txt"])),
                         ("gopher+", b"/small.txt\t+" + b"\r\n", False, lambda r: r.startswith(b"+")),
                         ("gopher+ with a long selector", b"/" + q + b"\t+\r\n", False, lambda r: r.startswith(b"--")),
                         ("gopher with a long selector", b"/" + q + b"\r\n", False, lambda r: r.startswith(b"3")),
                         ("http with a long missing path", b"GET /" + q + b" HTTP/1.0\r\n\r\n", False, lambda r: r.startswith(b"HTTP/1.0 404")),
                         ("spartan with a long path", b"localhost /" + q + b" 0\r\n", False, lambda r: r.startswith(b"4 "))]
            for label, req, tls, ok in longcases:
                resp = fetch(req, tls)
                if not ok(resp):
                    return {"confirmed": True, "scenario": "a %d-byte first line (%s) is not answered by the protocol its whole line selects" % (len(req.split(b"\r\n")[0]) + 2, label),
                            "response head": repr(resp[:120])}
        # bounded time: a client that stalls in the middle of its request is answered (or dropped) once the configured timeout expires
        cfg_t = _config({})
        cfg_t.set("pygopherd", "root", top)
        cfg_t.set("pygopherd", "timeout", "1")
        server_t = ThreadingTCPServer(cfg_t, ("127.0.0.1", 0), GopherRequestHandler, context=ctx)
        server_t.daemon_threads = True
        server_t.handle_error = lambda request, client_address: None
        threading.Thread(target=server_t.serve_forever, daemon=True).start()
        try:
            import time as _t3
            for label, partial in (("a Gopher selector without CR LF", b"/small.txt"), ("an HTTP request without the blank line", b"GET /small.txt HTTP/1.0\r\nHost: x\r\n"),
                                   ("a Spartan upload shorter than announced", b"localhost /small.txt 50\r\nshort")):
                c = socket.create_connection(server_t.server_address[:2], timeout=8)
                t0_ = _t3.time()
                c.sendall(partial)
                try:
                    c.recv(65536)
                    finished = True
                except socket.timeout:
                    finished = False
                except OSError:
                    finished = True
                c.close()
                if not finished:
                    return {"confirmed": True, "scenario": "[pygopherd] timeout = 1: %s is still unanswered and the connection still open after %.0f s (accepted connections do not carry the configured timeout)" % (label, _t3.time() - t0_)}
        finally:
            server_t.shutdown()
            server_t.server_close()
        # a client that resets the connection in the middle of a large document: nothing may leave the connection handler
        import struct, time as _t2
        open(os.path.join(top, "huge.bin"), "wb").write(b"\x5a" * (8 << 20))
        for req in (b"/huge.bin\r\n", b"GET /huge.bin HTTP/1.0\r\n\r\n"):
            c = socket.create_connection(addr, timeout=20)
            c.setsockopt(socket.SOL_SOCKET, socket.SO_RCVBUF, 4096)
            c.sendall(req)
            c.recv(2000)
            c.setsockopt(socket.SOL_SOCKET, socket.SO_LINGER, struct.pack("ii", 1, 0))
            c.close()
            for _k in range(40):
                _t2.sleep(0.05)
                if escaped:
                    break
        _t2.sleep(0.3)
        if escaped:
            return {"confirmed": True, "scenario": "the client reset the connection while a large document was being sent: an exception left the connection handler and reached the server's handle_error", "escaped": escaped[:2]}
        return {"confirmed": None, "note": "real-socket fetches agree with the files"}
    except Exception as e:  # noqa: harness trouble is not a verdict
        import traceback
        return {"confirmed": None, "harness_error": traceback.format_exc()[-800:]}
    finally:
        if server is not None:
            server.shutdown()
            server.server_close()
        shutil.rmtree(top, ignore_errors=True)


_prev_copyto = find("pygopherd/handlers/base.py::VFS_Real.copyto")
REALISERS.append(("pygopherd/handlers/base.py::VFS_Real.copyto", lambda d: (_first_confirmed(_prev_copyto, r_real_sockets)(d) if d.get("kind") == "standin" else _prev_copyto(d))))


# ------------------------------------------------------------------- WAP text-to-WML conversion (C04 stand-in)
def urllib_quote(x):
    import urllib.parse
    return urllib.parse.quote(x)


def r_wap(d):
    """text/plain documents fetched through /wap/: one WML line per LF-delimited source line (escaped, trailing blanks
    dropped), a paragraph break per empty line - also when a line contains form feeds, lone CRs, VT, FS/GS/RS or the
    Unicode line separators."""
    import html as _html, shutil, tempfile
    import pygopherd.handlers.base as hb
    import pygopherd.handlers.HandlerMultiplexer as hm
    top = tempfile.mkdtemp(prefix="pyvc-wap-", dir="/var/tmp")
    try:
        cfg = _config({})
        cfg.set("pygopherd", "root", top)
        hb.rootpath = None; hm.rootpath = None; hm.handlers = None
        files = {"plain.txt": b"one\ntwo\n\nthree & <four>\n", "crlf.txt": b"one\r\ntwo\r\n\r\nlast",
                 "ff.txt": b"Chapter 1\x0cChapter 2\nnext\n", "cr.txt": b"over\rwritten\nline\n", "vt.txt": b"a\x0bb\x1cc\x1dd\x1ee\n",
                 "uni.txt": "x y z\u0085w\n".encode("utf-8"), "empty.txt": b""}
        for n, c in files.items():
            open(os.path.join(top, n), "wb").write(c)
        for n, c in files.items():
            out, _l = _serve(b"GET /wap/" + n.encode() + b" HTTP/1.0\r\n\r\n", cfg)
            head, sep, body = out.partition(b"\r\n\r\n")
            start = body.find(b"<p>\n")
            end = body.rfind(b"</p>\n</card>")
            if not sep or start < 0 or end < 0:
                return {"confirmed": True, "scenario": "no WML deck for the text file %s" % n, "response": repr(out[:200])}
            got = body[start + 4:end]
            want = b""
            for raw in c.decode("utf-8", "surrogateescape").split("\n"):
                if raw == "" and want is not None and c.decode("utf-8", "surrogateescape").endswith("\n") and raw is c.decode("utf-8", "surrogateescape").split("\n")[-1]:
                    continue
                line = raw.rstrip()
                want += (_html.escape(line).encode("utf-8", "surrogateescape") + b"\n") if line else b"</p>\n<p>"
            # the reader stops at end of file: a final empty piece after the last LF is not a line
            lines = c.decode("utf-8", "surrogateescape").split("\n")
            if lines and lines[-1] == "":
                lines = lines[:-1]
            want = b"".join((_html.escape(l.rstrip()).encode("utf-8", "surrogateescape") + b"\n") if l.rstrip() else b"</p>\n<p>" for l in lines)
            if got != want:
                return {"confirmed": True, "scenario": "WML conversion of %s is not one line per source line" % n, "deck": repr(got[:200]), "reference": repr(want[:200])}
        # a Content-Length header, if any protocol variant sends one, is the length of the body that follows
        for n, c in list(files.items()) + [("blob.bin", bytes(range(256)) * 3)]:
            open(os.path.join(top, n), "wb").write(c)
            for prefix in (b"", b"/wap"):
                for verb in (b"GET", b"HEAD"):
                    out, _l = _serve(verb + b" " + prefix + b"/" + n.encode() + b" HTTP/1.0\r\n\r\n", cfg)
                    head, sep, body = out.partition(b"\r\n\r\n")
                    for hl in head.split(b"\r\n")[1:]:
                        if hl.lower().startswith(b"content-length:"):
                            try:
                                adv = int(hl.split(b":", 1)[1])
                            except ValueError:
                                adv = -1
                            if verb == b"GET" and adv != len(body):
                                return {"confirmed": True, "scenario": "%s %s/%s: Content-Length advertises %d bytes but %d body bytes follow" % (verb.decode(), prefix.decode(), n, adv, len(body))}
        # the document's name never adds attributes to the WML card
        evil = 'memo" onenterforward="#evil" x="y.txt'
        open(os.path.join(top, evil), "w").write("text\n")
        out, _l = _serve(b"GET /wap/" + urllib_quote(evil).encode() + b" HTTP/1.0\r\n\r\n", cfg)
        import re as _re3
        m_ = _re3.search(rb"<card([^>]*)>", out)
        if m_ is not None:
            attrs = set(_re3.findall(rb'\s([A-Za-z:_-]+)=', m_.group(1)))
            if not attrs <= {b"id", b"title", b"newcontext"}:
                return {"confirmed": True, "scenario": "a document name with a double quote added attributes to the WML <card>", "card": repr(m_.group(0)[:200])}
        # a length announced for a document is the length of what is sent now, not of an earlier version of the file
        for size in (1024, 4098, 1):
            open(os.path.join(top, "report.bin"), "wb").write(b"r" * size)
            out, _l = _serve(b"/report.bin\t+\r\n", cfg)
            head, sep, body = out.partition(b"\r\n")
            if head.startswith(b"+") and head[1:].lstrip(b"-").isdigit() and int(head[1:]) >= 0 and int(head[1:]) != len(body):
                return {"confirmed": True, "scenario": "report.bin rewritten with %d bytes between two Gopher+ requests: the header says %s but %d body bytes follow" % (size, head.decode(), len(body))}
        # decompressed documents: a length is announced only if it is the length of what is sent (multi-member gzip files included)
        import gzip as _gz, shutil as _shz
        if _shz.which("zcat"):
            from pygopherd import testutil as _tu3
            from pygopherd.protocols import ProtocolMultiplexer as _pm
            a_, b_ = b"first member " * 300, b"second member, different length " * 500
            docs = {"single.txt.gz": (_gz.compress(a_), a_), "multi.txt.gz": (_gz.compress(a_) + _gz.compress(b_), a_ + b_), "multi2.txt.gz": (_gz.compress(b_) + _gz.compress(b""), b_)}
            for n, (raw, plain) in docs.items():
                open(os.path.join(top, n), "wb").write(raw)
            cfg2 = _config({})
            cfg2.set("pygopherd", "root", top)
            cfg2.set("handlers.HandlerMultiplexer", "handlers", "[file.CompressedFileHandler, UMN.UMNDirHandler, file.FileHandler]")
            cfg2.set("handlers.file.CompressedFileHandler", "decompressors", "{'gzip' : 'zcat'}")
            hb.rootpath = None; hm.rootpath = None; hm.handlers = None
            from pygopherd import initialization as _in3, logger as _lg3
            _lg3.log = lambda m: None
            _in3.init_mimetypes(cfg2)
            server = _tu3.get_testing_server(cfg2)
            for n, (raw, plain) in docs.items():
                outp = os.path.join(top, "out.bin")
                rfile = io.BytesIO(b"/" + n.encode() + b"\t+\r\n")
                wfile = open(outp, "wb", buffering=0)
                try:
                    rq = _tu3.MockRequest(rfile, wfile)
                    rh = _tu3.MockRequestHandler(rq, ("10.77.77.77", "7777"), server)
                    line = rfile.readline().decode(errors="surrogateescape")
                    proto = _pm.getProtocol(line, server, rh, rfile, wfile, cfg2)
                    proto.handle()
                finally:
                    if not wfile.closed:
                        wfile.close()
                out = open(outp, "rb").read()
                head, sep, body = out.partition(b"\r\n")
                if type(proto.handler).__name__ != "CompressedFileHandler":
                    break  # the decompressing handler is not in use on this tree / platform: nothing to check
                if body != plain:
                    return {"confirmed": True, "scenario": "%s through the decompressing handler: %d body bytes, the decompressed document has %d" % (n, len(body), len(plain))}
                if head.startswith(b"+") and head[1:].isdigit() and int(head[1:]) != len(body):
                    return {"confirmed": True, "scenario": "%s through the decompressing handler: Gopher+ announces %s but %d body bytes follow" % (n, head.decode(), len(body))}
            hb.rootpath = None; hm.rootpath = None; hm.handlers = None
        return {"confirmed": None, "note": "WML conversion agrees with the line-by-line reference"}
    finally:
        shutil.rmtree(top, ignore_errors=True)
        hb.rootpath = None; hm.rootpath = None; hm.handlers = None


REALISERS.append(("pygopherd/protocols/wap.py::WAPProtocol.handlerwrite", r_wap))


# ------------------------------------------------------------------- damaged ZIP member cache (C11 stand-in)
def r_zipcache(d):
    """Every file the ZIP member cache consists of (whatever the dbm backend names them) is cut to prefixes and
    zero-filled; a request into the archive must then be answered exactly as without any cache."""
    import glob, shutil, tempfile, zipfile
    import pygopherd.handlers.base as hb
    import pygopherd.handlers.HandlerMultiplexer as hm
    top = tempfile.mkdtemp(prefix="pyvc-zc-", dir="/var/tmp")
    try:
        with zipfile.ZipFile(os.path.join(top, "arch.zip"), "w") as z:
            z.writestr("readme.txt", b"hello\n")
            z.writestr("docs/a.txt", b"a\n")
            z.writestr("docs/deep/b.txt", b"b\n")
        cfg = _config({})
        cfg.set("pygopherd", "root", top)
        cfg.set("handlers.ZIP.ZIPHandler", "enabled", "true")
        cfg.set("handlers.HandlerMultiplexer", "handlers", "[ZIP.ZIPHandler, UMN.UMNDirHandler, file.FileHandler]")
        cfg.set("handlers.dir.DirHandler", "cachetime", "0")

        def ask():
            hb.rootpath = None; hm.rootpath = None; hm.handlers = None
            out = []
            for rq in (b"/arch.zip\r\n", b"/arch.zip/docs\r\n", b"/arch.zip/docs/deep/b.txt\r\n"):
                try:
                    o, logs = _serve(rq, cfg)
                except BaseException as e:  # noqa
                    o, logs = b"RAISED " + repr(e).encode(), []
                out.append((o, [l for l in logs if "EXCEPTION" in l and "FileNotFound" not in l]))
            return out

        def cachefiles():
            return sorted(glob.glob(os.path.join(top, ".cache.pygopherd.zip3.*")))

        for f in cachefiles():
            os.unlink(f)
        ref = ask()           # no cache yet: this also writes one
        if any(l for _o, l in ref):
            return {"confirmed": True, "scenario": "a request into an archive without any cache logs an exception", "log": [l for _o, l in ref if l][:1]}
        good = {f: open(f, "rb").read() for f in cachefiles()}
        n = 0
        for f, data in good.items():
            cuts = sorted(set(list(range(0, min(len(data), 96))) + list(range(0, len(data), 11)) + [max(len(data) - 1, 0)]))
            variants = [data[:c] for c in cuts] + [b"\0" * len(data)]
            for v in variants:
                for g, gd in good.items():
                    open(g, "wb").write(gd)
                    os.utime(g, None)
                open(f, "wb").write(v)
                # the cache must look fresh (newer than the archive), otherwise it is rebuilt anyway
                got = ask()
                n += 1
                if [o for o, _l in got] != [o for o, _l in ref] or any(l for _o, l in got):
                    return {"confirmed": True, "scenario": "member cache file %s cut to %d of %d bytes%s" % (os.path.basename(f), len(v), len(data), " (zero-filled)" if v and not v.strip(b"\0") else ""),
                            "answers": [repr(o[:100]) for o, _l in got], "reference": [repr(o[:100]) for o, _l in ref], "log": [l for _o, l in got if l][:1]}
        return {"confirmed": None, "note": "%d damaged-cache variants answered like the cache-less reference" % n}
    finally:
        shutil.rmtree(top, ignore_errors=True)
        hb.rootpath = None; hm.rootpath = None; hm.handlers = None


REALISERS.append(("pygopherd/handlers/ZIP.py::VFSZip.init_cache", r_zipcache))
REALISERS.append(("pygopherd/handlers/ZIP.py::VFSZip.save_cache", r_zipcache))


# ------------------------------------------------------------------- extension stripping modes (C08 stand-in)
def r_extstrip(d):
    """The three documented modes of [handlers.UMN.UMNDirHandler] extstrip on Welcome.txt and pygopherd.tar.gz:
    none keeps both names, nonencoded gives Welcome / pygopherd.tar.gz, full gives Welcome / pygopherd."""
    import shutil, tempfile
    import pygopherd.handlers.base as hb
    import pygopherd.handlers.HandlerMultiplexer as hm
    import pygopherd.handlers.UMN as umn
    from pygopherd import initialization, logger
    logger.log = lambda m: None
    top = tempfile.mkdtemp(prefix="pyvc-ext-", dir="/var/tmp")
    try:
        for n in ("Welcome.txt", "pygopherd.tar.gz"):
            open(os.path.join(top, n), "wb").write(b"x")
        want = {"none": ["Welcome.txt", "pygopherd.tar.gz"], "nonencoded": ["Welcome", "pygopherd.tar.gz"], "full": ["Welcome", "pygopherd"]}
        for mode, names in want.items():
            cfg = _config({})
            cfg.set("pygopherd", "root", top)
            cfg.set("handlers.UMN.UMNDirHandler", "extstrip", mode)
            cfg.set("handlers.dir.DirHandler", "cachetime", "0")
            hb.rootpath = None; hm.rootpath = None; hm.handlers = None; umn.extstrip = None
            initialization.init_mimetypes(cfg)
            out, _l = _serve(b"/\r\n", cfg)
            got = sorted(l.split(b"\t")[0][1:].decode() for l in out.split(b"\r\n") if l and l != b".")
            if got != sorted(names):
                return {"confirmed": True, "scenario": "extstrip = %s: menu names of Welcome.txt and pygopherd.tar.gz" % mode, "menu": got, "documented": sorted(names)}
            # a title given by a .cap file (or a .names block) is shown as written: extension stripping is about file names only
            capd = os.path.join(top, "capped")
            os.makedirs(os.path.join(capd, ".cap"), exist_ok=True)
            for n_, title in (("changes.txt", "What changed since release-1.2.txt"), ("setup.html", "How to edit index.html"), ("dump.txt.gz", "Nightly dump.txt.gz")):
                open(os.path.join(capd, n_), "wb").write(b"x")
                open(os.path.join(capd, ".cap", n_), "w").write("Name=%s\n" % title)
            open(os.path.join(capd, "other.txt"), "wb").write(b"x")
            open(os.path.join(capd, ".names"), "w").write("Name=Read me first.txt\nPath=./other.txt\n")
            hb.rootpath = None; hm.rootpath = None; hm.handlers = None; umn.extstrip = None
            out, _l = _serve(b"/capped\r\n", cfg)
            got = sorted(l.split(b"\t")[0][1:].decode() for l in out.split(b"\r\n") if l and l != b".")
            want_c = sorted(["What changed since release-1.2.txt", "How to edit index.html", "Nightly dump.txt.gz", "Read me first.txt"])
            shutil.rmtree(capd, ignore_errors=True)
            if got != want_c:
                return {"confirmed": True, "scenario": "extstrip = %s: titles given by .cap files / a .names block must be shown as written" % mode, "menu": got, "documented": want_c}
        return {"confirmed": None, "note": "extension stripping as documented in all three modes"}
    finally:
        shutil.rmtree(top, ignore_errors=True)
        hb.rootpath = None; hm.rootpath = None; hm.handlers = None; umn.extstrip = None


REALISERS.append(("pygopherd/fileext.py::", r_extstrip))


# ------------------------------------------------------------------- HTML titles as entry names (C13 stand-in)
def r_titles(d):
    """HTML files whose <title> is folded over lines, carries markup and entities, is never closed, or hides
    '+ADMIN:' lines: whatever becomes the entry name stays on one line of the Gopher+ item information and the
    directory listing, and adds no element to the HTML listing."""
    import shutil, tempfile
    import pygopherd.handlers.base as hb
    import pygopherd.handlers.HandlerMultiplexer as hm
    top = tempfile.mkdtemp(prefix="pyvc-title-", dir="/var/tmp")
    try:
        cfg = _config({})
        cfg.set("pygopherd", "root", top)
        cfg.set("handlers.UMN.UMNDirHandler", "extstrip", "none")
        cfg.set("handlers.dir.DirHandler", "cachetime", "0")
        hb.rootpath = None; hm.rootpath = None; hm.handlers = None
        import pygopherd.handlers.UMN as umn
        umn.extstrip = None
        pages = {"plain.html": "<html><head><title>Plain title</title></head><body>x</body></html>",
                 "folded.html": "<html><head><title>Folded\n   over\r\n\tlines</title></head></html>",
                 "markup.html": "<html><head><title>A &lt;b&gt; &amp; <script>alert(1)</script> \"q\"</title></head></html>",
                 "unclosed.html": "<html><head><title>Never closed\r\n+ADMIN:\r\n Admin: evil\r\n+ABSTRACT:\r\n injected\r\n<body>text",
                 "unclosed2.html": "<title>first line\nsecond line\n+VIEWS:\n text/evil: <9k>\n",
                 "notitle.html": "<html><body>nothing</body></html>",
                 "charref.html": "<html><head><title>x&#13;&#10;+ABSTRACT:&#13;&#10; forged&#9;tab</title></head></html>",
                 "fragment.html": "<p>an HTML fragment without head or title</p>" * 40,
                 "longtitle.html": "<html><head><title>" + " ".join("word%d" % i for i in range(45)) + "\n+ADMIN:\n Admin: evil\n+ABSTRACT:\n forged</title></head></html>",
                 "manylines.html": "<html><head><title>" + "\n".join("line %d" % i for i in range(70)) + "\r\n+ADMIN:\r\n Admin: evil</title></head></html>"}
        for n, c in pages.items():
            open(os.path.join(top, n), "w", newline="").write(c)
        allowed = {"+INFO", "+ADMIN", "+VIEWS"}
        for n in pages:
            out, _l = _serve(b"/" + n.encode() + b"\t!\r\n", cfg)
            lines = out.decode("utf-8", "replace").split("\r\n")
            heads = [l.split(":")[0] for l in lines if l.startswith("+") and not l.startswith("+-")]
            if heads.count("+INFO") != 1 or any(h not in allowed for h in heads) or heads.count("+ADMIN") != 1:
                return {"confirmed": True, "scenario": "item information of %s: block headers" % n, "headers": heads, "answer": repr(out[:300])}
            info = [l for l in lines if l.startswith("+INFO:")][0]
            if info.count("\t") < 3:
                return {"confirmed": True, "scenario": "the title of %s broke the +INFO line" % n, "line": info}
        for n, c in pages.items():
            out, _l = _serve(b"/" + n.encode() + b"\r\n", cfg)
            if out != c.encode():
                return {"confirmed": True, "scenario": "the HTML document %s is not delivered byte for byte" % n, "sent bytes": len(out), "file bytes": len(c.encode())}
            out, _l = _serve(b"/" + n.encode() + b"\t+\r\n", cfg)
            head, sep, body = out.partition(b"\r\n")
            if head.startswith(b"+") and head[1:].isdigit() and int(head[1:]) != len(body):
                return {"confirmed": True, "scenario": "Gopher+ length of %s" % n, "header": head.decode(), "body bytes": len(body)}
        out, _l = _serve(b"/\r\n", cfg)
        n_lines = [l for l in out.split(b"\r\n") if l and l != b"."]
        if len(n_lines) != len(pages) or any(l.count(b"\t") < 3 for l in n_lines):
            return {"confirmed": True, "scenario": "plain listing of a directory of %d HTML files" % len(pages), "lines": [repr(l[:80]) for l in n_lines]}
        out, _l = _serve(b"GET / HTTP/1.0\r\n\r\n", cfg)
        if b"<script" in out.lower():
            return {"confirmed": True, "scenario": "an HTML title became markup in the HTML listing"}
        return {"confirmed": None, "note": "HTML titles stay inside their lines"}
    finally:
        shutil.rmtree(top, ignore_errors=True)
        hb.rootpath = None; hm.rootpath = None; hm.handlers = None
        try:
            umn.extstrip = None
        except Exception:  # noqa
            pass


REALISERS.append(("pygopherd/handlers/html.py::", r_titles))


for _m in ("isdir", "isfile", "exists", "stat", "listdir"):
    REALISERS.append(("pygopherd/handlers/base.py::VFS_Real." + _m, _first_confirmed(lambda d: r_dir(dict(d, obligation=d.get("obligation", "") + " prep_entries prepare")), r_c01_audit)))


# ------------------------------------------------------------------- link targets and abstracts in every protocol (C06 stand-in)
def r_links(d):
    """One directory with a .Links file (URL:http://, URL:mailto:, URL:news:, a link to another host without and with
    a leading slash, a link to this host's name on another port) and a local file, listed through Gopher, HTTP, WAP,
    Gemini and Spartan: every protocol must point each entry at an equivalent target.  Then the abstract options:
    informational lines are the same in every protocol unless abstract_entries = unsupported."""
    import re as _re, shutil, tempfile, urllib.parse
    import pygopherd.handlers.base as hb
    import pygopherd.handlers.HandlerMultiplexer as hm
    top = tempfile.mkdtemp(prefix="pyvc-links-", dir="/var/tmp")
    try:
        open(os.path.join(top, "local.txt"), "w").write("x")
        open(os.path.join(top, "release%20notes.txt"), "w").write("a name with a literal percent-twenty\n")
        open(os.path.join(top, "50%25 off.txt"), "w").write("a name with a literal percent-25 and a blank\n")
        open(os.path.join(top, "a+b=c (1).txt"), "w").write("plus, equals, parentheses\n")
        open(os.path.join(top, "g++ notes;v2.txt"), "w").write("two plus signs and a semicolon\n")
        open(os.path.join(top, "line\u2028sep.txt"), "w").write("a name with U+2028\n")
        open(os.path.join(top, "form\x0cfeed.txt"), "w").write("a name with a form feed\n")
        open(os.path.join(top, "nel\u0085name.txt"), "w").write("a name with NEL\n")
        open(os.path.join(top, "caf\udce9 latin1.txt"), "w").write("a name that is not UTF-8\n")
        open(os.path.join(top, ".abstract"), "w").write("Directory header line one\nline two\n")
        open(os.path.join(top, "local.txt.abstract"), "w").write("About the local file\n")
        open(os.path.join(top, ".Links"), "w").write(
            "Name=Web\nType=h\nPath=URL:http://www.example.org/a?b=c\n\nName=Mail\nType=h\nPath=URL:mailto:user@example.org\n\nName=News\nType=h\nPath=URL:news:comp.lang.python\n\n"
            "Name=Remote\nType=1\nPath=/pub\nHost=other.example\nPort=7070\n\nName=Finger\nType=0\nPath=lindner\nHost=other.example\nPort=79\n\n"
            "Name=Same name other port\nType=1\nPath=/x\nHost=localhost\nPort=7071\n")

        def targets(proto, out):
            text = out.decode("utf-8", "surrogateescape")
            res = {}
            if proto == "gopher":
                for l in text.split("\r\n"):
                    f = l.split("\t")
                    if len(f) >= 4 and f[0][:1] != "i":
                        name, sel, host, port = f[0][1:], f[1], f[2], f[3]
                        m = _re.match("(/|)URL:(.+)$", sel)
                        res[name] = m.group(2) if m else "gopher://%s:%s/%s" % (host, port, urllib.parse.quote(f[0][0] + sel, errors="surrogateescape"))
            elif proto in ("http", "wap"):
                for m in _re.finditer(r'(?is)<a [^>]*href="([^"]*)"[^>]*>(.*?)</a>', text):
                    import html as _h
                    label = _re.sub(r"(?s)<[^>]*>", "", m.group(2))
                    res[_h.unescape(label).strip()] = _h.unescape(m.group(1))
            else:
                for l in text.split("\n"):
                    m = _re.match(r"=[>:] (\S+) (.*)$", l)
                    if m:
                        res[m.group(2).strip()] = m.group(1)
            return res

        def canon(proto, t, cfgport):
            # a relative / local link and a gopher URL to this very server and port are the same target
            t = t.replace("/wap/", "/", 1) if proto == "wap" and t.startswith("/wap/") else t
            m = _re.match(r"gopher://localhost:%s/.(.*)$" % cfgport, t)
            if m:
                t = urllib.parse.unquote(m.group(1))
            return urllib.parse.unquote(t)

        cfg = _config({})
        cfg.set("pygopherd", "root", top)
        cfg.set("handlers.dir.DirHandler", "cachetime", "0")
        hb.rootpath = None; hm.rootpath = None; hm.handlers = None
        reqs = {"gopher": (b"/\r\n", False), "http": (b"GET / HTTP/1.0\r\n\r\n", False), "wap": (b"GET /wap/ HTTP/1.0\r\n\r\n", False),
                "gemini": (b"gemini://localhost/\r\n", True), "spartan": (b"localhost / 0\r\n", False)}
        seen = {}
        for proto, (rq, tls) in reqs.items():
            out, _l = _serve(rq, cfg, tls=tls)
            seen[proto] = {k: canon(proto, v, "64777") for k, v in targets(proto, out).items()}
        ref = seen["gopher"]
        # every protocol's link to a local file, followed in that protocol, delivers the file (names with literal %XX included)
        for fname in ("local.txt", "release%20notes.txt", "50%25 off.txt", "a+b=c (1).txt", "g++ notes;v2.txt", "line\u2028sep.txt", "form\x0cfeed.txt", "nel\u0085name.txt", "caf\udce9 latin1.txt"):
            content = open(os.path.join(top, fname), "rb").read()
            # the Gopher family: the selector advertised for the file (split on TAB / CR LF only), sent back byte for byte
            for gp_label, gp_rq in (("gopher", b"/\r\n"), ("gopher+", b"/\t+\r\n")):
                out, _l = _serve(gp_rq, cfg)
                if gp_label == "gopher+":
                    out = out.partition(b"\r\n")[2]
                sel_ = None
                for l_ in out.split(b"\r\n"):
                    f_ = l_.split(b"\t")
                    if len(f_) >= 4 and f_[0][1:].decode("utf-8", "surrogateescape") == fname:
                        sel_ = f_[1]
                if sel_ is None:
                    return {"confirmed": True, "scenario": "the local file %r has no line of its own in the %s menu" % (fname, gp_label), "menu": repr(out[:400])}
                body, _l = _serve(sel_ + b"\r\n", cfg)
                if body != content:
                    return {"confirmed": True, "scenario": "following the %s selector %r advertised for the file %r does not deliver the file" % (gp_label, sel_, fname), "response": repr(body[:120])}
            for proto in ("http", "gemini", "spartan"):
                raw = None
                out, _l = _serve(reqs[proto][0], cfg, tls=reqs[proto][1])
                for k_, v_ in targets(proto, out).items():
                    if k_ == fname or (raw is None and urllib.parse.unquote(v_, errors="surrogateescape") == "/" + fname):
                        raw = v_
                if raw is None or not raw.startswith("/"):
                    return {"confirmed": True, "scenario": "the local file %r is not advertised as a local link in the %s listing" % (fname, proto), "target": raw}
                if proto == "http":
                    body, _l = _serve(b"GET " + raw.encode() + b" HTTP/1.0\r\n\r\n", cfg)
                    body = body.partition(b"\r\n\r\n")[2]
                elif proto == "gemini":
                    body, _l = _serve(b"gemini://localhost" + raw.encode() + b"\r\n", cfg, tls=True)
                    body = body.partition(b"\r\n")[2]
                else:
                    body, _l = _serve(b"localhost " + raw.encode() + b" 0\r\n", cfg)
                    body = body.partition(b"\r\n")[2]
                if body != content:
                    return {"confirmed": True, "scenario": "following the %s link %r advertised for the file %r does not deliver the file" % (proto, raw, fname), "response": repr(body[:120])}
        # WAP: every entry of a long menu (more entries than WML access keys) keeps its link target
        wap_t = seen["wap"]
        for fname in ("local.txt", "release%20notes.txt", "a+b=c (1).txt", "g++ notes;v2.txt", "50%25 off.txt"):
            if not wap_t.get(fname):
                return {"confirmed": True, "scenario": "the WAP card of a directory with %d entries has no link target for %r" % (len(ref), fname), "wap targets": {k: v for k, v in list(wap_t.items())[:20]}}
        # WAP: selectors that contain the WAP prefix themselves ('/wap' below the top level) round-trip
        os.makedirs(os.path.join(top, "phones", "wap"))
        open(os.path.join(top, "phones", "wap-howto.txt"), "w").write("howto\n")
        open(os.path.join(top, "phones", "wap", "intro.txt"), "w").write("intro\n")
        try:
            out, _l = _serve(b"GET /wap/phones HTTP/1.0\r\n\r\n", cfg)
            t1 = targets("wap", out)
            if "wap-howto.txt" not in t1 or "wap" not in t1:
                return {"confirmed": True, "scenario": "the WAP listing of /phones does not link wap-howto.txt and the directory wap", "targets": t1}
            doc, _l = _serve(b"GET " + t1["wap-howto.txt"].encode() + b" HTTP/1.0\r\n\r\n", cfg)
            if b"howto" not in doc or b" 200 " not in doc.split(b"\r\n")[0] + b" ":
                return {"confirmed": True, "scenario": "following the WAP link %r of /phones/wap-howto.txt does not deliver the document" % t1["wap-howto.txt"], "response": repr(doc[:160])}
            sub, _l = _serve(b"GET " + t1["wap"].encode() + b" HTTP/1.0\r\n\r\n", cfg)
            if "intro.txt" not in targets("wap", sub):
                return {"confirmed": True, "scenario": "following the WAP link %r of the directory /phones/wap does not list its file intro.txt" % t1["wap"], "response": repr(sub[-300:])}
        finally:
            shutil.rmtree(os.path.join(top, "phones"), ignore_errors=True)
        for name in ("Web", "Mail", "News", "Remote", "Finger", "Same name other port"):
            vals = {proto: seen[proto].get(name) for proto in seen}
            want = ref.get(name)
            for proto, v in vals.items():
                if v is None or want is None:
                    return {"confirmed": True, "scenario": "link entry %r is missing from the %s listing" % (name, proto), "targets": vals}
                ok = v == want or (proto != "gopher" and name in ("Remote", "Finger", "Same name other port") and _re.sub(r":70/", ":7070/", v) == want)
                if not ok and not (name in ("Remote", "Finger", "Same name other port") and v.split("/", 3)[:3] == want.split("/", 3)[:3] and v.rsplit("/", 1)[-1].lstrip("01") == want.rsplit("/", 1)[-1].lstrip("01")):
                    return {"confirmed": True, "scenario": "link entry %r points at different targets in different protocols" % name, "targets": vals}
        # ---- abstracts
        def infos(proto, out):
            text = out.decode("utf-8", "replace")
            if proto.startswith("gopher"):
                return [(l[len("+INFO: "):] if l.startswith("+INFO: ") else l).split("\t")[0][1:] for l in text.split("\r\n") if l.startswith("i") or l.startswith("+INFO: i")]
            if proto == "http":
                return None
            return [l for l in text.split("\n") if l and not l.startswith("=") and not l.startswith("#") and not l[:2].isdigit()]
        for headers in ("on", "off"):
            for entries in ("always", "never"):
                cfg.set("pygopherd", "abstract_headers", headers)
                cfg.set("pygopherd", "abstract_entries", entries)
                got = {}
                for proto, rq, tls in (("gopher", b"/\r\n", False), ("gopher+", b"/\t+\r\n", False), ("gopher+ $", b"/\t$\r\n", False), ("gemini", b"gemini://localhost/\r\n", True), ("spartan", b"localhost / 0\r\n", False)):
                    hb.rootpath = None; hm.rootpath = None; hm.handlers = None
                    out, _l = _serve(rq, cfg, tls=tls)
                    got[proto] = [x.strip() for x in (infos(proto, out) or []) if x.strip() and "footer" not in x.lower()]
                hdr = {p_: [x for x in v if x.startswith("Directory header") or x == "line two"] for p_, v in got.items()}
                if len({tuple(v) for v in hdr.values()}) != 1:
                    return {"confirmed": True, "scenario": "abstract_headers=%s abstract_entries=%s: the directory's header lines differ between protocols" % (headers, entries), "header lines": hdr}
        return {"confirmed": None, "note": "link targets and header lines agree across protocols"}
    finally:
        shutil.rmtree(top, ignore_errors=True)
        hb.rootpath = None; hm.rootpath = None; hm.handlers = None


for _q in ("pygopherd/protocols/http.py::HTTPProtocol.renderobjinfo", "pygopherd/protocols/http.py::HTTPProtocol.getrenderstr", "pygopherd/protocols/wap.py::WAPProtocol.getrenderstr",
           "pygopherd/protocols/gemini.py::GeminiProtocol.renderobjinfo", "pygopherd/protocols/spartan.py::SpartanProtocol.renderobjinfo", "pygopherd/gopherentry.py::GopherEntry.geturl",
           "pygopherd/protocols/base.py::BaseGopherProtocol.renderabstract"):
    REALISERS.append((_q, r_links))
_prev_gri = find("pygopherd/protocols/rfc1436.py::GopherProtocol.renderobjinfo")
REALISERS.append(("pygopherd/protocols/rfc1436.py::GopherProtocol.renderobjinfo", lambda d: (_first_confirmed(r_links, _prev_gri)(d) if d.get("kind") == "standin" else _prev_gri(d))))
for _q2 in ("pygopherd/protocols/spartan.py::SpartanProtocol.handle", "pygopherd/protocols/gemini.py::GeminiProtocol.handle", "pygopherd/protocols/wap.py::WAPProtocol.canhandlerequest"):
    _prev_h = find(_q2)
    REALISERS.append((_q2, (lambda prev: (lambda d: (_first_confirmed(r_links, prev)(d) if d.get("kind") == "standin" else prev(d))))(_prev_h)))
_prev_wd = find("pygopherd/protocols/base.py::BaseGopherProtocol.writedir")
REALISERS.append(("pygopherd/protocols/base.py::BaseGopherProtocol.writedir", lambda d: (_first_confirmed(r_links, _prev_wd)(d) if d.get("kind") == "standin" else _prev_wd(d))))


REALISERS.append(("pygopherd/server.py::GopherRequestHandler.", lambda d: (r_real_sockets(d) if d.get("kind") == "standin" else {"confirmed": None, "note": "no counter-model replay for the connection handler"})))
REALISERS.append(("pygopherd/server.py::BaseServer.server_bind", lambda d: (r_real_sockets(d) if d.get("kind") == "standin" else {"confirmed": None, "note": "no counter-model replay for the listener set-up"})))
REALISERS.append(("pygopherd/server.py::BaseServer.__init__", lambda d: (r_real_sockets(d) if d.get("kind") == "standin" else {"confirmed": None, "note": "no counter-model replay for the listener set-up"})))
