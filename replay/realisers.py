"""Realisers: build a concrete call of the real function from a counter-model and evaluate the
contract clause natively (spec functions are plain Python: /verif/spec/specs.py)."""
import ast
import configparser
import io
import os
import sys
import types

from spec import specs as S

REALISERS = []


def realiser(prefix):
    def deco(fn):
        REALISERS.append((prefix, fn))
        return fn

    return deco


def find(fn):
    best = None
    for p, r in REALISERS:
        if fn.startswith(p) and (best is None or len(p) > len(best[0])):
            best = (p, r)
    return best[1] if best else None


def implies(a, b):
    return (not a) or b


class OldEvaluator(ast.NodeTransformer):
    """Replace old(<expr>) by the value <expr> had before the call."""

    def __init__(self, env):
        self.env = env
        self.vals = []

    def visit_Call(self, node):
        if isinstance(node.func, ast.Name) and node.func.id == "old":
            v = eval(compile(ast.Expression(node.args[0]), "<old>", "eval"), dict(self.env))
            self.vals.append(v)
            return ast.copy_location(ast.Subscript(value=ast.Name(id="__old", ctx=ast.Load()), slice=ast.Constant(len(self.vals) - 1), ctx=ast.Load()), node)
        return self.generic_visit(node)


def prepare_clause(clause, pre_env):
    tree = ast.parse(clause.strip(), mode="eval")
    ev = OldEvaluator(pre_env)
    tree = ev.visit(tree)
    ast.fix_missing_locations(tree)
    code = compile(tree, "<clause>", "eval")
    return code, ev.vals


def eval_clause(code, oldvals, env):
    e = dict(env)
    e["__old"] = oldvals
    e.setdefault("implies", implies)
    e.setdefault("S", S)
    return eval(code, e)


# ------------------------------------------------------------------------------ C19
@realiser("pygopherd/initialization.py::init_security")
def r_init_security(d):
    import pygopherd.initialization as init
    from pygopherd import logger

    m = d["model"]
    cfg = configparser.ConfigParser()
    cfg.add_section("pygopherd")
    cfg.set("pygopherd", "root", m.get("cfg[pygopherd/root]", "/srv/gopher") or "/srv/gopher")
    cfg.set("pygopherd", "usechroot", "yes" if m.get("cfgbool[pygopherd/usechroot]") else "no")
    if m.get("cfghas[pygopherd/setuid]"):
        cfg.set("pygopherd", "setuid", "someuser")
    if m.get("cfghas[pygopherd/setgid]"):
        cfg.set("pygopherd", "setgid", "somegroup")
    trace = []

    def sys_(name):
        def f(*args):
            trace.append((name,) + tuple(args))
            if m.get("fails_" + name.replace(".", "_")):
                trace.append(("FAILED:" + name,))
                raise OSError(1, "Operation not permitted")
        return f

    def lookup(name, idv):
        def f(arg):
            if m.get("fails_" + name.replace(".", "_")):
                trace.append((name, arg))
                trace.append(("FAILED:" + name,))
                raise KeyError(arg)
            trace.append((name, arg, idv))
            return (arg, "x", idv)
        return f

    fake_os = types.SimpleNamespace(chroot=sys_("os.chroot"), chdir=sys_("os.chdir"), setgroups=sys_("os.setgroups"),
                                    setregid=sys_("os.setregid"), setreuid=sys_("os.setreuid"), path=os.path)
    real_os = init.os
    real_set = cfg.set
    import pwd, grp
    rp, rg = pwd.getpwnam, grp.getgrnam
    logger.log = lambda msg: None

    class Cfg(configparser.ConfigParser):
        pass

    def cfg_set(sec, opt, val):
        trace.append(("config.set", sec, opt, val))
        return real_set(sec, opt, val)

    cfg.set = cfg_set
    ghost = types.SimpleNamespace(trace=trace)
    env = {"config": cfg, "ghost": ghost}
    code, olds = prepare_clause(d["clause"], env)
    init.os = fake_os
    pwd.getpwnam = lookup("pwd.getpwnam", 1234)
    grp.getgrnam = lookup("grp.getgrnam", 5678)
    raised = None
    try:
        init.init_security(cfg)
    except Exception as e:  # noqa
        raised = e
    finally:
        init.os = real_os
        pwd.getpwnam, grp.getgrnam = rp, rg
    env["raised"] = raised
    kind = d.get("kind")
    holds = bool(eval_clause(code, olds, env))
    if kind == "ensures" and raised is not None:
        return {"confirmed": None, "note": "model predicted normal exit, real code raised %r" % raised, "trace": trace}
    return {"confirmed": (not holds), "clause_holds_natively": holds, "trace": trace, "raised": repr(raised)}
