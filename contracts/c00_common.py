"""Shared declarations: field types of the repository's classes and the accessor functions
that are inlined (their body is their strongest contract; listed in the evidence)."""

GE = "pygopherd/gopherentry.py::GopherEntry."


def register(w):
    # pure accessors and tiny helpers: inlined at call sites
    w.inline(
        "pygopherd/GopherExceptions.py::log",
        "pygopherd/GopherExceptions.py::FileNotFound.__init__",
        "pygopherd/GopherExceptions.py::FileNotFound.__str__",
        *[GE + n for n in (
            "getselector", "setselector", "getconfig", "setconfig", "getfspath", "gettype", "settype", "getname",
            "setname", "gethost", "sethost", "getport", "setport", "getmimetype", "getencodedmimetype",
            "setmimetype", "getsize", "getencoding", "getlanguage", "getctime", "getmtime", "getnum", "setnum",
            "getgopherpsupport", "setgopherpsupport", "getea", "geteadict", "setea", "__init__")],
        "pygopherd/handlers/base.py::BaseHandler.getselector",
        "pygopherd/protocols/base.py::BaseGopherProtocol.log",
        "pygopherd/handlers/base.py::BaseHandler.gethandler",
        "pygopherd/handlers/base.py::BaseHandler.__init__",
        "pygopherd/handlers/base.py::VFS_Real.__init__",
        "pygopherd/handlers/base.py::VFS_Real.iswritable",
        "pygopherd/handlers/virtual.py::Virtual.getselector",
        "pygopherd/handlers/mbox.py::MBoxMessageHandler.getargflag",
        "pygopherd/handlers/mbox.py::MaildirMessageHandler.getargflag",
        "pygopherd/handlers/UMN.py::LinkEntry.__init__",
        "pygopherd/handlers/HandlerMultiplexer.py::init_default_handlers",
        "pygopherd/handlers/UMN.py::LinkEntry.getneedsmerge",
        "pygopherd/handlers/UMN.py::LinkEntry.getneedsabspath",
        "pygopherd/handlers/UMN.py::LinkEntry.setneedsmerge",
        "pygopherd/handlers/UMN.py::LinkEntry.setneedsabspath",
    )
    w.fields("GopherEntry", selector="str", config="obj:Config", fspath="opt[str]", type="opt[str]", name="opt[str]",
             host="opt[str]", port="opt[int]", mimetype="opt[str]", encodedmimetype="opt[str]", size="opt[int]",
             encoding="opt[str]", populated="int", language="opt[str]", ctime="opt[int]", mtime="opt[int]",
             num="opt[int]", gopherpsupport="int", ea="dict[str,str]")
    w.fields("LinkEntry", needsmerge="bool", needsabspath="bool")
    w.fields("BaseHandler", selector="str", searchrequest="opt[str]", protocol="obj:BaseGopherProtocol", config="obj:Config",
             statresult="opt[stat]", fspath="opt[str]", entry="opt[obj:GopherEntry]", vfs="obj:VFS")
    w.fields("Virtual", selectorreal="str", selectorargs="str")
    w.fields("FolderHandler", entries="list[obj:GopherEntry]", mbox="opaque:mailbox")
    w.fields("BaseGopherProtocol", request="str", rfile="obj:RFile", wfile="obj:WFile", config="obj:Config",
             server="obj:Server", requesthandler="obj:RequestHandler", requestlist="list[str]",
             searchrequest="opt[str]", handler="opt[obj:BaseHandler]", selector="str", entry="obj:GopherEntry")
    w.fields("RequestHandler", client_address="tuple[str,int]", request="opaque:socket")
    w.fields("Server", server_name="str", server_port="int", config="obj:Config")
    w.fields("WAPProtocol", accesskeyidx="int", postfieldidx="int", needsconversion="int")
    w.fields("BaseGopherProtocol", accesskeyidx="int", postfieldidx="int")
    w.fields("WFile", written="bytes")
    w.fields("RFile", content="bytes", pos="nat")
    w.fields("TFile", content="str", pos="nat")
