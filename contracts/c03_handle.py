"""C03 / C04 / C20 - the protocols' handle() functions, error replies and the connection handler.

Shared model: `wfile` is a ghost byte sequence (`written`); under the fault model (opts wfile_faults)
every wfile.write may raise OSError with one argument (socket.timeout('timed out')) or two
(errno, strerror).  Handler objects are arbitrary (interface contracts of AnyHandler)."""
import ast
import z3
from pyvc.values import *  # noqa
from pyvc import externals as X
from pyvc.engine import Raised, OutOfSubset

P = "pygopherd/protocols/"
BASE = P + "base.py::BaseGopherProtocol."
GOPHER = ["GopherProtocol", "SecureGopherProtocol", "EnhancedGopherProtocol"]
GPLUS = ["GopherPlusProtocol", "SecureGopherPlusProtocol", "URLGopherPlus"]
HTTP = ["HTTPProtocol", "HTTPSProtocol"]
PROTO_ALL = ["BaseGopherProtocol"] + GOPHER + GPLUS + HTTP + ["WAPProtocol", "GeminiProtocol", "SpartanProtocol"]
GROOT = {"pygopherd/handlers/base.py:rootpath": "opt[str]"}
MROOT = "g:pygopherd/handlers/base.py:rootpath"
ROOTREQ = ["G.rootpath is None or G.rootpath == '' or G.rootpath == self.config.get('pygopherd', 'root')",
           "S.abs_root(self.config.get('pygopherd', 'root'))"]
NOFAULT = "len(ghost.wfile_faults) == 0"
ADMIN = "self.config.get('protocols.gopherp.GopherPlusProtocol', 'admin')"

IFACE2 = '''
class AnyHandler:
    def getentry(self):
        pass
    def prepare(self):
        pass
    def isdir(self):
        pass
    def getdirlist(self):
        pass
    def write(self, wfile):
        pass

class AnyProtocol:
    def handle(self):
        pass
'''


def _register_iface(w):
    from pyvc.extract import FuncInfo, ClassInfo
    tree = ast.parse(IFACE2)
    ci = w.repo.cls("AnyHandler")
    for m in tree.body[0].body:
        if isinstance(m, ast.FunctionDef):
            ci.methods[m.name] = m
            fi = FuncInfo("iface", "AnyHandler", m, ast.get_source_segment(IFACE2, m))
            w.repo.funcs[fi.qualname] = fi
    cp = ClassInfo("iface", tree.body[1])
    w.repo.classes.setdefault("AnyProtocol", []).append(cp)
    for m in cp.methods.values():
        fi = FuncInfo("iface", "AnyProtocol", m, ast.get_source_segment(IFACE2, m))
        w.repo.funcs[fi.qualname] = fi


def _time_fn(name):
    def impl(eng, world, args, kwargs, node):
        eng.assumptions_used.add("time.gmtime/localtime/strftime/ctime are total functions of their arguments; strftime with the fixed RFC-1123 format returns a string without CR/LF")
        if name in ("time.gmtime", "time.localtime"):
            o = VOpaque("struct_time", z3.Const(eng.fresh_name("tm"), U))
            o.attrs["getitem"] = lambda e, idx, n: VInt(z3.Function("tm_field", U, z3.IntSort(), z3.IntSort())(o.z, zint(idx.z)))
            return o
        r = z3.String(eng.fresh_name(name.replace(".", "_")))
        eng.assume(z3.Not(z3.Contains(r, z3.StringVal("\r"))))
        eng.assume(z3.Not(z3.Contains(r, z3.StringVal("\n"))))
        return VStr(r)
    return impl


for _n in ("time.gmtime", "time.localtime", "time.strftime", "time.ctime"):
    X.EXT_IMPL[_n] = _time_fn(_n)


def _setup_faults(eng, fr):
    eng.ghost["wfile_faults"] = VList([])


def register(w):
    w.always_standin["C03"] = [("pygopherd/handlers/mbox.py::MessageHandler.getmessage", "mailbox access is an assumed interface (mailbox module): message selectors in and out of range"),
                               ("pygopherd/handlers/dir.py::DirHandler.prepare", "independence from earlier requests through the directory cache is a property of histories"),
                               ("pygopherd/protocols/wap.py::WAPProtocol.handlerwrite", "self-consistency of HTTP/WAP replies (a Content-Length header equals the body that follows) relates handle() and handlerwrite()")]
    _register_iface(w)
    w.fields("AnyHandler", entry="opt[obj:GopherEntry]", body="ghost:bytes")
    w.fields("BaseGopherProtocol", handler="opt[obj:AnyHandler]")
    hprops = ["C03", "C04", "C20"]
    FAULT = dict(opts={"wfile_faults": True}, setup=_setup_faults, ghost={"log": "log"})
    # ---- interface of an arbitrary handler, as the protocols use it --------------------------------------
    w.contract("iface::AnyHandler.getentry", modifies=["self.entry"], raises={"FileNotFound": True, "OSError": True}, returns="obj:GopherEntry", assumed=True,
               ensures=["result.size is None or result.size == len(self.body)", "result.mimetype is None or result.mimetype.isascii()"],
               note="interface; MIME types come from the MIME tables/configuration (ASCII); the size clause is the per-class obligation (C04: FileHandler/Compressed/TAL getentry)", props=hprops + ["C15"])
    w.contract("iface::AnyHandler.prepare", modifies=["self.entry"], raises={"FileNotFound": True, "OSError": True}, assumed=True,
               note="interface", props=hprops)
    w.contract("iface::AnyHandler.isdir", modifies=[], raises={}, returns="bool", assumed=True, note="interface", props=hprops)
    w.contract("iface::AnyHandler.getdirlist", modifies=[], raises={}, returns="list[obj:GopherEntry]", assumed=True,
               note="interface: getdirlist returns the list prepare() built (DirHandler.getdirlist additionally writes the cache file: savecache swallows IOError)", props=hprops)
    w.contract("iface::AnyHandler.write", params={"wfile": "obj:WFile"}, modifies=["wfile.written"], raises={"OSError": True}, assumed=True,
               ensures=["wfile.written == old(wfile.written) + self.body"],
               on_raise={"OSError": ["wfile.written.startswith(old(wfile.written))", "raised.from_wfile"]},
               note="interface: a handler writes its document body to wfile; the write may fail with OSError (fault model)", props=hprops)

    # ---- gethandler (memoised) -------------------------------------------------------------------------------
    w.contract(BASE + "gethandler", selfclass=PROTO_ALL, globals=GROOT,
               requires=ROOTREQ + ["self.selector.startswith('/')", "self.handler is None"],
               modifies=["self.handler", MROOT], raises={"FileNotFound": True}, returns="obj:AnyHandler",
               ensures=["self.handler is result", "result.nofs or (S.secure(result.selector) and result.selector.startswith('/'))", ROOTREQ[0]],
               on_raise={"*": [ROOTREQ[0]]},
               props=hprops + ["C01"])

    # ---- error replies: one complete, well-formed reply --------------------------------------------------------
    w.contract(BASE + "filenotfound", selfclass=["BaseGopherProtocol"] + GOPHER + ["GeminiProtocol", "SpartanProtocol"],
               params={"msg": "opt[str]"}, modifies=["self.wfile.written"], raises={"OSError": True},
               ensures=["implies(%s, self.wfile.written == old(self.wfile.written) + S.gopher_error(msg))" % NOFAULT,
                        "self.wfile.written.startswith(old(self.wfile.written))",
                        "len(ghost.wfile_faults) == len(old(ghost.wfile_faults))", "len(ghost.log) == len(old(ghost.log))"],
               on_raise={"OSError": ["raised.from_wfile", "self.wfile.written.startswith(old(self.wfile.written))"]},
               props=hprops, **FAULT)
    w.contract(P + "gopherp.py::GopherPlusProtocol.filenotfound", selfclass=GPLUS,
               params={"msg": "opt[str]"}, modifies=["self.wfile.written"], raises={"OSError": True},
               ensures=["implies(%s, self.wfile.written == old(self.wfile.written) + S.gplus_error(%s, msg))" % (NOFAULT, ADMIN),
                        "self.wfile.written.startswith(old(self.wfile.written))",
                        "len(ghost.wfile_faults) == len(old(ghost.wfile_faults))", "len(ghost.log) == len(old(ghost.log))"],
               on_raise={"OSError": ["raised.from_wfile", "self.wfile.written.startswith(old(self.wfile.written))"]},
               props=hprops, **FAULT)
    w.contract(P + "http.py::HTTPProtocol.filenotfound", selfclass=HTTP,
               params={"msg": "opt[str]"}, modifies=["self.wfile.written"], raises={"OSError": True, "AttributeError": "msg is None"},
               ensures=["implies(%s, self.wfile.written.startswith(old(self.wfile.written) + S.HTTP_404_HEAD))" % NOFAULT,
                        "self.wfile.written.startswith(old(self.wfile.written))",
                        "len(ghost.wfile_faults) == len(old(ghost.wfile_faults))", "len(ghost.log) == len(old(ghost.log))"],
               on_raise={"OSError": ["raised.from_wfile", "self.wfile.written.startswith(old(self.wfile.written))"]},
               props=hprops + ["C13"], **FAULT)
    for mod, cls in (("gemini.py", "GeminiProtocol"), ("spartan.py", "SpartanProtocol")):
        w.contract(P + "%s::%s.write_status" % (mod, cls), selfclass=[cls],
                   params={"code": "int", "meta": "str"},
                   modifies=["self.wfile.written"], raises={"OSError": True},
                   ensures=["implies(%s, self.wfile.written == old(self.wfile.written) + S.status_line(code, S.collapse_crlf(meta)))" % NOFAULT,
                            "S.one_line(S.collapse_crlf(meta))",
                            "self.wfile.written.startswith(old(self.wfile.written))"],
                   on_raise={"OSError": ["raised.from_wfile", "self.wfile.written.startswith(old(self.wfile.written))"]},
                   note="the status line is a single line for every meta string (C03: 'syntactically valid ... status line')",
                   props=hprops, **FAULT)

    # ---- the shared directory writer -----------------------------------------------------------------------------
    for m, params, ret in (("renderobjinfo", {"entry": "obj:GopherEntry"}, "opt[str]"), ("renderdirstart", {"entry": "obj:GopherEntry"}, "opt[str]"),
                           ("renderdirend", {"entry": "obj:GopherEntry"}, "opt[str]"), ("renderabstract", {"abstractstring": "opt[str]"}, "str")):
        for cls in PROTO_ALL:
            fi = w.repo.resolve_method(cls, m)
            if (fi.qualname, cls) in w.contracts:
                continue
            w.contract(fi.qualname, selfclass=[cls], params=params,
                       modifies={"renderobjinfo": ["entry.mimetype", "self.accesskeyidx", "self.postfieldidx"], "renderdirstart": ["self.accesskeyidx", "self.postfieldidx"]}.get(m, []),
                       raises={}, returns=ret if not (m == "renderobjinfo" and cls != "BaseGopherProtocol") else "str",
                       assumed=(cls == "BaseGopherProtocol" and m in ("renderobjinfo", "renderabstract")) or (m == "renderobjinfo" and cls in GPLUS),
                       requires=(["self.accesskeyidx >= 0"] if (cls == "WAPProtocol" and m == "renderabstract") else []),
                       loops=({0: dict(invariant=["True"], havoc=["retval", "line", "absentry"], types={"retval": "str"})} if m == "renderabstract" else {}),
                       note="renderer as the shared directory writer sees it: returns a string (or None), raises nothing; the exact text is the subject of C13/C06/C15"
                            + (" [abstract base method: 'MUST BE OVERRIDDEN', never selected by the protocol multiplexer]" if (m == "renderobjinfo" and cls == "BaseGopherProtocol") else ""),
                       props=hprops)
    w.contract(BASE + "groksabstract", selfclass=["BaseGopherProtocol"] + GOPHER + HTTP + ["WAPProtocol", "GeminiProtocol", "SpartanProtocol"], modifies=[], raises={}, returns="bool",
               ensures=["result == False"], props=hprops + ["C06"])
    w.contract(P + "gopherp.py::GopherPlusProtocol.groksabstract", selfclass=GPLUS, modifies=[], raises={}, returns="bool",
               ensures=["result == True"], props=hprops + ["C06"])
    w.contract(BASE + "writedir", selfclass=PROTO_ALL[1:],
               params={"entry": "obj:GopherEntry", "dirlist": "list[obj:GopherEntry]"},
               modifies=["self.accesskeyidx", "self.postfieldidx", "self.wfile.written"], raises={"OSError": True},
               ensures=["self.wfile.written.startswith(old(self.wfile.written))"],
               on_raise={"OSError": ["raised.from_wfile", "self.wfile.written.startswith(old(self.wfile.written))"]},
               loops={0: dict(invariant=["self.wfile.written.startswith(old(self.wfile.written))"],
                              havoc=["self.wfile.written", "self.accesskeyidx", "self.postfieldidx"])},
               props=hprops + ["C06"], **FAULT)
    register2(w)


def _urlparse(eng, world, args, kwargs, node):
    """urllib.parse.urlparse(url): raises ValueError on a malformed bracketed authority; otherwise returns
    a record whose path/query are functions of the URL."""
    eng.assumptions_used.add("urllib.parse.urlparse raises ValueError for some malformed authorities (e.g. an unmatched '[') and otherwise returns components that are functions of the URL string")
    u = eng.force(args[0])
    z = zstr(u.z)
    bad = z3.Function("urlparse_invalid", z3.StringSort(), z3.BoolSort())(z)
    eng.assume(z3.Implies(bad, z3.Contains(z, z3.StringVal("["))) if False else z3.BoolVal(True))
    if eng.branch(bad):
        raise Raised(VExc("ValueError", [VStr("Invalid IPv6 URL")]), getattr(node, "lineno", None))
    o = VObj("ParseResult", name=eng.fresh_name("url"))
    o.fields["path"] = VStr(z3.Function("url_path", z3.StringSort(), z3.StringSort())(z))
    o.fields["query"] = VStr(z3.Function("url_query", z3.StringSort(), z3.StringSort())(z))
    o.fresh_alloc = True
    return o


def _parse_qs(eng, world, args, kwargs, node):
    eng.assumptions_used.add("urllib.parse.parse_qs returns a dict from field names to NON-EMPTY lists of strings; never raises")
    q = eng.force(args[0])
    name = eng.fresh_name("formvals")
    d = VDict({}, sym=(name, "list[str]"), valty="list[str]")
    return d


def _unhexlify(eng, world, args, kwargs, node):
    return eng.fresh("bytes", "icon_bytes")


X.EXT_IMPL["urllib.parse.urlparse"] = _urlparse
X.EXT_IMPL["urllib.parse.parse_qs"] = _parse_qs
X.EXT_IMPL["binascii.unhexlify"] = _unhexlify

HREQ = ROOTREQ + ["self.selector.startswith('/')", "self.handler is None", "self.rfile.pos <= len(self.rfile.content)"]
HMOD = ["self.handler", "self.entry", "self.selector", "self.searchrequest", "self.wfile.written", "self.accesskeyidx", "self.postfieldidx", MROOT, "ghost.log"]


def register2(w):
    hprops = ["C01", "C03", "C04", "C20"]
    FAULT = dict(opts={"wfile_faults": True}, setup=_setup_faults, ghost={"log": "log"})
    w.fields("HTTPProtocol", iconmapping="dict[str,str]", formvals="dict[str,list[str]]")
    w.fields("RequestHandler", rfile="obj:RFile", wfile="obj:WFile", server="obj:Server")
    w.fields("GopherRequestHandler", rfile="obj:RFile", wfile="obj:WFile", server="obj:Server", client_address="tuple[str,int]", request="opaque:socket")
    w.fields("AnyProtocol", requesthandler="obj:GopherRequestHandler", request="str")
    w.fields("FileNotFound", selector="str", comments="str", protocol="opt[obj:BaseGopherProtocol]")
    ONLYW = {"OSError": ["raised.from_wfile"]}
    # ---- plain Gopher ---------------------------------------------------------------------------------
    w.contract(BASE + "handle", selfclass=GOPHER, globals=GROOT,
               requires=HREQ, modifies=HMOD, raises={"OSError": True},
               on_raise=ONLYW,
               note="only a failing client socket (OSError from wfile.write) may leave handle(): everything else is answered by an error item",
               props=hprops, **FAULT)
    # ---- Gopher+ ------------------------------------------------------------------------------------------
    w.contract(P + "gopherp.py::GopherPlusProtocol.handle", selfclass=GPLUS, globals=GROOT,
               requires=HREQ + ["S.gplus_field_ok(self.gopherpstring)"], modifies=HMOD + ["self.handlemethod"], raises={"OSError": True},
               on_raise=ONLYW,
               at={"after:handler.write(self.wfile)": [
                   ("assert", "implies(%s, self.wfile.written == old(self.wfile.written) + S.gplus_size_header(self.entry.size) + handler.body)" % NOFAULT),
                   ("assert", "self.entry.size is None or self.entry.size == len(handler.body)")]},
               note="C04: a '+' request is answered by '+<size>' CRLF followed by exactly the handler's body, and <size> is the body length or -2",
               props=hprops + ["C15"], **FAULT)
    # ---- HTTP --------------------------------------------------------------------------------------------------
    w.contract(P + "http.py::HTTPProtocol.handle", selfclass=HTTP, globals=GROOT,
               requires=HREQ + ["S.shape_http(self.request)", "S.tls(self) == type(self).secure"],
               init={"requestlist": "[arg.strip() for arg in self.request.split('\\t')]"},
               modifies=HMOD + ["self.requestparts", "self.iconmapping", "self.httpheaders", "self.formvals", "self.rfile.pos", "self.requesthandler.pygopherd_http_slurped"],
               raises={"OSError": True}, on_raise=ONLYW,
               at={"after~Content-Type: {mimetype}": [("ghost", "hdr_end", "self.wfile.written"), ("ghost", "hdr_faults", "len(ghost.wfile_faults)")],
                   "after~if self.requestparts[0] == 'GET'": [
                       ("assert", "implies(self.requestparts[0] != 'GET' and len(ghost.wfile_faults) == ghost.hdr_faults, self.wfile.written == ghost.hdr_end)")],
                   "after~Content-Type: image/gif": [("ghost", "icon_hdr_end", "self.wfile.written")]},
               note="C04: the header block is complete before the method is looked at, and a HEAD request writes nothing after it",
               opts={"wfile_faults": True, "cfgeval:protocols.http.HTTPProtocol/iconmapping": "dict[str,str]"}, setup=_setup_faults,
               ghost={"log": "log", "conn_headers": "dict[str,str]"},
               props=["C03", "C04", "C20", "C13"])
    w.contract(P + "http.py::HTTPProtocol.handlerwrite", selfclass=HTTP, params={"wfile": "obj:WFile"},
               requires=["self.handler is not None"], modifies=["wfile.written"], raises={"OSError": True},
               ensures=["wfile.written == old(wfile.written) + self.handler.body"], on_raise={"OSError": ["raised.from_wfile", "wfile.written.startswith(old(wfile.written))"]},
               props=hprops, **FAULT)
    w.contract(P + "http.py::HTTPProtocol.adjustmimetype", selfclass=HTTP, params={"mimetype": "opt[str]"}, modifies=[], raises={}, returns="str",
               ensures=["result == ('text/plain' if mimetype is None else ('text/html' if mimetype == 'application/gopher-menu' else mimetype))"],
               props=hprops + ["C06"])
    # ---- Gemini / Spartan -------------------------------------------------------------------------------------------
    for mod, cls, extra in (("gemini.py", "GeminiProtocol", ["self.request.startswith('gemini://')"]),
                            ("spartan.py", "SpartanProtocol", ["S.shape_spartan(self.request)"])):
        w.contract(P + "%s::%s.handle" % (mod, cls), selfclass=[cls], globals=GROOT,
                   requires=HREQ + extra, modifies=HMOD + ["self.rfile.pos"], raises={"OSError": True}, on_raise=ONLYW,
                   use_lemmas=[("ascii-digit-field", {"req": "self.request", "mid": "self.request.strip()", "f": "self.request.strip().split(' ')[2]"})] if cls == "SpartanProtocol" else [],
                   props=hprops, **FAULT)
        w.contract(P + "%s::%s.adjust_mimetype" % (mod, cls), selfclass=[cls], params={"mimetype": "opt[str]"}, modifies=[], raises={}, returns="str",
                   ensures=["result == ('text/plain' if mimetype is None else ('text/gemini' if mimetype == 'application/gopher-menu' else mimetype))",
                            "implies(mimetype is not None and S.one_line(mimetype), S.one_line(result))"],
                   props=hprops + ["C06"])
    w.contract(P + "gemini.py::GeminiProtocol.handle_input", selfclass=["GeminiProtocol"], params={"selector": "str", "searchrequest": "str"},
               modifies=["self.wfile.written"], raises={"OSError": True}, on_raise=ONLYW,
               ensures=["self.wfile.written.startswith(old(self.wfile.written))"], props=hprops, **FAULT)
    # ---- the connection handler ------------------------------------------------------------------------------------------
    w.lemma("ascii-digit-field", ["req:str", "mid:str", "f:str"],
            hyp=["req.isascii()", "mid in req", "f in mid", "f.isdigit()"], goal=["ascii_digits(f)"], props=["C03", "C20", "C01", "C04", "C05", "C06"],
            note="a field of an ASCII request line that passes str.isdigit() consists of ASCII digits, so int() of it is exact and cannot raise")
    def unbuffered(world):
        """The connection handler writes straight to the socket (StreamRequestHandler.wbufsize stays 0): a write to a
        dead peer fails inside protohandler.handle(), where it is caught and logged, not later in finish()."""
        import ast as _ast
        ci = world.repo.cls("GopherRequestHandler")
        bad = []
        for st in ci.node.body:
            if isinstance(st, (_ast.Assign, _ast.AnnAssign)):
                names = [t.id for t in (st.targets if isinstance(st, _ast.Assign) else [st.target]) if isinstance(t, _ast.Name)]
                if any(n in ("wbufsize", "rbufsize", "finish", "setup") for n in names):
                    bad.append("GopherRequestHandler sets %s" % names)
            if isinstance(st, _ast.FunctionDef) and st.name in ("finish", "setup"):
                bad.append("GopherRequestHandler overrides %s()" % st.name)
        return (not bad, bad or "no buffering attribute or finish()/setup() override")

    w.astcheck("C20.ast.unbuffered-wfile", ["C20"], unbuffered)
    w.contract("iface::AnyProtocol.handle", modifies=["ghost.nescaped"], raises={"OSError": True}, assumed=True,
               ghost={"nescaped": "int"},
               ensures=["ghost.nescaped == old(ghost.nescaped)"], on_raise={"OSError": ["ghost.nescaped == old(ghost.nescaped) + 1"]},
               note="interface: what every protocol's handle() guarantees (BaseGopherProtocol/GopherPlus/HTTP/Gemini/Spartan .handle.raises-only-declared): only OSError escapes; "
                    "the ghost counter nescaped counts the failures that escape to the connection handler",
               props=["C20", "C03"])
    w.contract("pygopherd/server.py::GopherRequestHandler.handle",
               selfclass=["GopherRequestHandler"],
               requires=["self.rfile.pos <= len(self.rfile.content)", "ghost.nescaped == 0"],
               modifies=["self.rfile.pos", "ghost.log", "ghost.nescaped"], raises={},
               ghost={"log": "log", "nescaped": "int"},
               opts={"getprotocol_iface": True, "must_hit": ["after~request = "]},
               at={"after~request = ": [("assert", "self.rfile.pos == len(self.rfile.content) or self.rfile.content[self.rfile.pos - 1:self.rfile.pos] == b'\\n'")]},
               ensures=["len(ghost.log) <= 1", "len(ghost.log) == ghost.nescaped",
                        "implies(len(ghost.log) == 1, ghost.log[0].startswith(self.client_address[0] + ' [AnyProtocol/None] EXCEPTION OSError: '))"],
               note="nothing raised by the protocol reaches the accept loop; a failure that escapes the protocol IS logged (len(log) == number of escaped failures), once, with the client's address and under the class of the exception that was caught (AnyProtocol stands for the protocol class name); the protocol is chosen from the whole first line (C02: what is read is the input up to and including its first newline, or all of it)",
               props=["C20", "C03", "C02"])
