"""C17 / C18 - simpleTAL: the parts of the two properties a per-function contract can carry.

C17 (a) repeat-variable arithmetic (index/number/even/odd/start/end) against the TAL definitions;
    (b) the command compilers: every compiled command that jumps carries the end-of-element symbol of the
        element being compiled, and tal:content / tal:replace honour the 'structure' and 'text' keywords;
    (c) popTag points that symbol at the ENDTAG_ENDSCOPE command it appends.
C18 (a) text results are written html-escaped, attribute values escaped with quotes (structural obligation);
    (b) python: expressions are not evaluated when Python paths are disabled (ghost log of eval calls), and the
        handler passes the configured switch to the context;
    (c) locals / repeat map push and pop are exact inverses (data-structure contracts) and each interpreter
        command that pushes records it in localVarsDefined, each one that pops is the matching one.
Whole-template semantics (the document a template expands to) and whole-expansion context restoration are
induction over programs, not over one call: they are covered by the bounded stand-in r_tal and stated as such."""
T = "simpletal/simpleTAL.py::"
E = "simpletal/simpleTALES.py::"


def register(w):
    P17, P18 = ["C17"], ["C18"]
    w.inline(T + "TemplateParseException.__init__")
    # ------------------------------------------------------------------------------ C17 (a) repeat variables
    w.fields("RepeatVariable", position="nat", sequence="list[opaque:item]", map="opt[opaque:map]", ourValue="int")
    RV = E + "RepeatVariable."
    REQ = ["self.position < len(self.sequence)"]
    for name, ens in (("getIndex", ["result == self.position"]),
                      ("getNumber", ["result == self.position + 1"]),
                      ("getEven", ["result == (1 if self.position % 2 == 0 else 0)"]),
                      ("getOdd", ["result == (1 if self.position % 2 == 1 else 0)"]),
                      ("getStart", ["result == (1 if self.position == 0 else 0)"]),
                      ("getEnd", ["result == (1 if self.position == len(self.sequence) - 1 else 0)"])):
        w.contract(RV + name, selfclass=["RepeatVariable"], requires=REQ, modifies=[], raises={}, returns="int", ensures=ens,
                   canary="result == 0", props=P17,
                   note="TAL repeat variable: index counts from 0, number from 1, even/odd refer to the index, start/end mark the first/last iteration")
    w.contract(RV + "getCurrentValue", selfclass=["RepeatVariable"], requires=REQ, modifies=[], raises={}, returns="opaque:item",
               ensures=["result is self.sequence[self.position]"], props=P17)
    w.contract(RV + "increment", selfclass=["RepeatVariable"], requires=REQ, modifies=["self.position"], raises={"IndexError": True}, returns="none",
               ensures=["self.position == old(self.position) + 1", "self.position < len(self.sequence)"],
               on_raise={"IndexError": ["self.position == len(self.sequence)", "old(self.position) == len(self.sequence) - 1"]}, props=P17,
               note="the repeat ends (IndexError) exactly after the last element: every element is visited once, in order")
    # ------------------------------------------------------------------------------ C17 (b) command compilers
    w.fields("TemplateCompiler", endTagSymbol="int", commandList="list[opaque:cmd]", log="opaque:logger", currentStartTag="opaque:tag")
    TC = T + "TemplateCompiler."
    CC = ["TemplateCompiler", "HTMLTemplateCompiler"]
    for q in (TC + "tagAsText", T + "HTMLTemplateCompiler.tagAsText"):
        w.contract(q, params={"tagObj": "opaque:tag", "singletonFlag": "int"}, modifies=[], raises={}, returns="str", assumed=True,
                   note="compile-time rendering of the offending start tag for an error message (TemplateParseException); not part of any output", props=P17)
    w.contract(TC + "compileCmdCondition", selfclass=CC, params={"argument": "str"}, modifies=[], raises={"TemplateParseException": "len(argument) == 0"},
               returns="tuple[int,tuple[str,int]]", ensures=["result[0] == 2", "result[1][0] == argument", "result[1][1] == self.endTagSymbol"], props=P17)
    w.contract(TC + "compileCmdRepeat", selfclass=CC, params={"argument": "str"}, modifies=[], raises={"TemplateParseException": "' ' not in argument"},
               returns="tuple[int,tuple[str,str,int]]",
               ensures=["result[0] == 3", "result[1][2] == self.endTagSymbol", "result[1][0] + ' ' + result[1][1] == argument", "' ' not in result[1][0]"], props=P17,
               note="'var expression': the variable is the first word, the expression everything after the first blank")
    w.contract(TC + "compileCmdContent", selfclass=CC, params={"argument": "str", "replaceFlag": "int"}, modifies=[], raises={"TemplateParseException": "len(argument) == 0"},
               returns="tuple[int,tuple[int,int,str,int]]",
               ensures=["result[0] == 4", "result[1][0] == replaceFlag", "result[1][3] == self.endTagSymbol",
                        "implies(argument.startswith('structure '), result[1][1] == 1 and result[1][2] == argument[10:])",
                        "implies(argument.startswith('text '), result[1][1] == 0 and result[1][2] == argument[5:])",
                        "implies(not argument.startswith('structure ') and not argument.startswith('text '), result[1][1] == 0 and result[1][2] == argument)"],
               props=P17 + P18, note="TAL: content/replace take an optional 'text' (default, escaped) or 'structure' (raw) keyword before the expression")
    register18(w)
    register18b(w)
    WHY = "whole-program semantics and whole-expansion context restoration are induction over compiled programs, not over one call"
    w.always_standin["C17"] = [(T + "TemplateInterpreter.execute", WHY)]
    w.always_standin["C18"] = [(T + "TemplateInterpreter.execute", WHY)]
    w.contract(TC + "compileCmdOmitTag", selfclass=CC, params={"argument": "str"}, modifies=[], raises={}, returns="tuple[int,str]",
               ensures=["result[0] == 7", "result[1] == ('default' if argument == '' else argument)"], props=P17)


def _ast_checks(w):
    import ast

    def eval_only_behind_gate(world):
        """eval/exec/compile/__import__ are called nowhere in simpletal/ and handlers/tal.py except inside
        Context.evaluatePython (whose contract shows the call unreachable when Python paths are disabled)."""
        bad = []
        for q, fi in world.repo.funcs.items():
            if not (q.startswith("simpletal/") or q.startswith("pygopherd/handlers/tal.py")):
                continue
            for n in ast.walk(fi.node):
                if isinstance(n, ast.Call) and isinstance(n.func, ast.Name) and n.func.id in ("eval", "exec", "compile", "__import__"):
                    if q != E + "Context.evaluatePython":
                        bad.append("%s calls %s at line %d" % (q, n.func.id, n.lineno))
        return (not bad, bad or "the only eval() is in Context.evaluatePython")

    w.astcheck("C18.ast.eval-only-in-evaluatePython", ["C18"], eval_only_behind_gate)

    def handler_passes_switch(world):
        """TALFileHandler.write builds its context with allowPythonPath=self.allowpythonpath (the value
        canhandlerequest read from the configuration)."""
        fi = world.repo.get("pygopherd/handlers/tal.py::TALFileHandler.write")
        ok = False
        for n in ast.walk(fi.node):
            if isinstance(n, ast.Call) and isinstance(n.func, ast.Attribute) and n.func.attr == "Context":
                for kw in n.keywords:
                    if kw.arg == "allowPythonPath" and ast.unparse(kw.value) == "self.allowpythonpath":
                        ok = True
                if n.args:
                    ok = False
        return (ok, "Context(allowPythonPath=self.allowpythonpath)" if ok else ["TALFileHandler.write does not pass self.allowpythonpath to simpleTALES.Context"])

    w.astcheck("C18.ast.handler-passes-python-switch", ["C18"], handler_passes_switch)

    def attribute_values_escaped(world):
        """In every tagAsText variant an attribute value reaches the output only as html.escape(value, quote=1)
        (boolean attributes may be minimised to their name), and nothing else derived from the value is appended."""
        bad = []
        for q in (T + "TemplateInterpreter.tagAsText", T + "HTMLTemplateInterpreter.tagAsTextMinimizeAtts"):
            fi = world.repo.get(q)
            if fi is None:
                bad.append("%s not found" % q)
                continue
            loops = [n for n in ast.walk(fi.node) if isinstance(n, ast.For)]
            if len(loops) != 1 or ast.unparse(loops[0].target) != "(attName, attValue)":
                bad.append("%s: attribute loop restructured" % q)
                continue
            nesc = 0
            for n in ast.walk(fi.node):
                if isinstance(n, ast.Call) and isinstance(n.func, ast.Attribute) and n.func.attr in ("append", "write", "extend", "insert"):
                    for a in n.args:
                        src = ast.unparse(a)
                        if "attValue" in src:
                            if src in ("html.escape(attValue, quote=1)", "html.escape(attValue, quote=True)", "html.escape(attValue)"):
                                nesc += 1
                            else:
                                bad.append("%s appends %s at line %d" % (q, src, n.lineno))
                elif isinstance(n, (ast.Assign, ast.AugAssign)) and "attValue" in ast.unparse(n.value):
                    bad.append("%s: attValue flows through an assignment at line %d" % (q, n.lineno))
            if nesc == 0:
                bad.append("%s never appends the escaped value" % q)
            ret = [n for n in ast.walk(fi.node) if isinstance(n, ast.Return)]
            if len(ret) != 1 or ast.unparse(ret[0].value) != "''.join(result)":
                bad.append("%s: result is not ''.join(result)" % q)
        return (not bad, bad or "attribute values are appended only as html.escape(attValue, quote=1)")

    w.astcheck("C18.ast.attribute-values-escaped", ["C18"], attribute_values_escaped, soft=True)


def register18(w):
    P18 = ["C18"]
    _ast_checks(w)
    # ------------------------------------------------------------------------------ C18 (b) python: gate
    w.fields("Context", allowPythonPath="int", false="int", true="int", log="opaque:logger", globals="dict[str,opaque]", locals="dict[str,opaque]",
             localStack="list[dict[str,opaque]]", repeatStack="list[dict[str,opaque]]", repeatMap="dict[str,opaque]", pythonPathFuncs="opaque:ppf")
    CX = E + "Context."
    w.contract(CX + "evaluatePython", params={"expr": "str"}, requires=["self.allowPythonPath == 0"], modifies=[], raises={}, returns="int",
               ghost={"evals": "trace"}, ensures=["len(ghost.evals) == 0", "result == self.false"],
               canary="result == 1",
               note="with Python paths disabled the expression is never handed to eval() (ghost trace of eval calls stays empty) and the documented false value is returned", props=P18)
    # ------------------------------------------------------------------------------ C18 (c) locals / repeat push-pop
    w.contract(CX + "pushLocals", inline=True, modifies=["self.localStack", "self.locals"], raises={}, returns="none",
               ensures=["len(self.localStack) == len(old(self.localStack)) + 1", "self.localStack[len(self.localStack) - 1] is old(self.locals)",
                        "self.locals is not old(self.locals)"], props=P18,
               note="the caller's locals object itself is saved; the working copy is a new dict, so nothing bound afterwards can reach the saved one")
    w.contract(CX + "popLocals", inline=True, requires=["len(self.localStack) > 0"], modifies=["self.localStack", "self.locals"], raises={}, returns="none",
               ensures=["len(self.localStack) == len(old(self.localStack)) - 1", "self.locals is old(self.localStack)[len(old(self.localStack)) - 1]"], props=P18,
               note="pop restores exactly the object pushLocals saved: bindings made in between are gone")
    # ------------------------------------------------------------------------------ C18 (a) text is escaped
    TI = T + "TemplateInterpreter."
    CONTENT = "opt[tuple[int,either[str,bytes,opaque:value]]]"
    w.fields("TemplateInterpreter", file="obj:TextWFile", tagContent=CONTENT, outputTag="int", movePCBack="opt[int]", movePCForward="opt[int]",
             localVarsDefined="int", context="obj:Context", programCounter="int", slotParameters="opaque:slots",
             originalAttributes="opaque:oa", currentAttributes="opaque:ca", repeatVariable="opt[opaque:rv]", repeatAttributesCopy="opaque:ca",
             scopeStack="list[tuple[opt[int],opt[int],int,opaque:oa,opaque:ca,opaque:rv,%s,int]]" % CONTENT)
    w.fields("TextWFile", written="str", delta="str")
    for m in ("pushProgram", "popProgram"):
        w.contract(TI + m, modifies=["self.*"], raises={}, assumed=True, props=P18, note="saves / restores the interpreter registers around an inline template (structure content only)")
    w.contract(TI + "cmdEndTagEndScope", selfclass=["TemplateInterpreter", "HTMLTemplateInterpreter"],
               params={"command": "int", "args": "tuple[str,int,int]"},
               requires=["markup_safe(args[0])", "len(self.scopeStack) > 0", "implies(self.localVarsDefined != 0, len(self.context.localStack) > 0)",
                         "self.tagContent is None or self.tagContent[0] == 0"],
               init={"self.file.delta": "''"},
               modifies=["self.*", "self.file.written", "self.file.delta", "self.context.localStack", "self.context.locals"], raises={},
               ensures_internal=["markup_safe_text(self.file.delta)"],
               ensures=["implies(old(self.movePCBack) is None and old(self.localVarsDefined) != 0, len(self.context.localStack) == len(old(self.context.localStack)) - 1)",
                        "implies(old(self.movePCBack) is not None or old(self.localVarsDefined) == 0, len(self.context.localStack) == len(old(self.context.localStack)))",
                        "implies(old(self.movePCBack) is not None, self.programCounter == old(self.movePCBack))",
                        "implies(old(self.movePCBack) is None, self.programCounter == old(self.programCounter) + 1 and len(self.scopeStack) == len(old(self.scopeStack)) - 1)"],
               note="text content (no 'structure' keyword: tagContent[0] == 0) of any type - str, bytes, any other object - reaches the output only through "
                    "html.escape(.., quote=False); the end tag is template text. The element's locals are popped exactly when it pushed some and the element is "
                    "not looping back; the scope pushed by cmdStartScope is popped exactly when the element ends.", props=P18 + ["C17"])


def register18b(w):
    P18 = ["C18"]
    c = w.contracts[("pygopherd/handlers/tal.py::TALFileHandler.canhandlerequest", "TALFileHandler")]
    SEC = "'handlers.tal.TALFileHandler', 'allowpythonpath'"
    c.ensures = c.ensures + ["implies(result and self.config.has_option(%s), (self.allowpythonpath != 0) == self.config.getboolean(%s))" % (SEC, SEC),
                             "implies(result and not self.config.has_option(%s), self.allowpythonpath == 1)" % SEC]
    c.props = set(c.props) | {"C18"}
    c.note = (c.note or "") + " C18: the python: switch the handler hands to the template context is exactly the configured boolean (any spelling configparser accepts), 1 when unset"
    CX = E + "Context."
    TI = T + "TemplateInterpreter."
    IC = ["TemplateInterpreter", "HTMLTemplateInterpreter"]
    w.contract(CX + "evaluate", params={"expr": "str", "originalAtts": "opt[opaque:atts]"}, modifies=["self.globals"], raises={"PathNotFoundException": "originalAtts is None"},
               returns="opt[opaque:value]", assumed=True, props=P18 + ["C17"],
               note="TALES evaluation of one expression (path traversal over arbitrary application objects: outside the subset; bounded stand-in r_tal). "
                    "With originalAtts given (every interpreter command passes it) a missing path yields None instead of an exception. It binds no local and pushes nothing.")
    w.contract(CX + "setLocal", inline=True, params={"name": "str", "value": "opt[opaque:value]"}, modifies=["self.locals"], raises={}, returns="none",
               ensures=["len(self.localStack) == len(old(self.localStack))"], props=P18)
    w.contract(CX + "addGlobal", inline=True, params={"name": "str", "value": "opt[opaque:value]"}, modifies=["self.globals"], raises={}, returns="none", props=P18)
    w.contract(CX + "addRepeat", params={"name": "str", "var": "opaque:repeatvar", "initialValue": "opt[opaque:value]"},
               modifies=["self.repeatStack", "self.repeatMap", "self.globals", "self.localStack", "self.locals"], raises={}, returns="none",
               ensures=["len(self.localStack) == len(old(self.localStack)) + 1", "self.localStack[len(self.localStack) - 1] is old(self.locals)",
                        "len(self.repeatStack) == len(old(self.repeatStack)) + 1", "self.repeatStack[len(self.repeatStack) - 1] is old(self.repeatMap)"], props=P18,
               note="a repeat saves the caller's locals and repeat map themselves; the loop works on copies")
    w.contract(CX + "removeRepeat", params={"name": "str"}, requires=["len(self.repeatStack) > 0"], modifies=["self.repeatStack", "self.repeatMap", "self.globals"], raises={}, returns="none",
               ensures=["len(self.repeatStack) == len(old(self.repeatStack)) - 1", "self.repeatMap is old(self.repeatStack)[len(old(self.repeatStack)) - 1]"], props=P18)
    w.contract(TI + "cmdDefine", selfclass=IC, params={"command": "int", "args": "list[tuple[int,str,str]]"},
               modifies=["self.localVarsDefined", "self.programCounter", "self.context.localStack", "self.context.locals", "self.context.globals"], raises={},
               loops={0: dict(invariant=["foundLocals == 0 or foundLocals == 1", "len(self.context.localStack) == len(old(self.context.localStack)) + foundLocals"],
                              havoc=["foundLocals", "result"], types={"result": "opt[opaque:value]"})},
               ensures=["self.localVarsDefined == 0 or self.localVarsDefined == 1",
                        "len(self.context.localStack) == len(old(self.context.localStack)) + self.localVarsDefined",
                        "self.programCounter == old(self.programCounter) + 1"], props=P18,
               note="tal:define pushes the locals at most once per element and records exactly that in localVarsDefined, which is what cmdEndTagEndScope pops on")
    SC = "tuple[opt[int],opt[int],int,opaque:oa,opaque:ca,opaque:rv,opt[tuple[int,either[str,bytes,opaque:value]]],int]"
    w.contract(TI + "cmdStartScope", selfclass=IC, params={"command": "int", "args": "tuple[opaque:oa,opaque:ca]"}, modifies=["self.*"], raises={},
               ensures=["len(self.scopeStack) == len(old(self.scopeStack)) + 1", "self.localVarsDefined == 0", "self.movePCBack is None", "self.movePCForward is None",
                        "self.tagContent is None", "self.outputTag == 1", "self.programCounter == old(self.programCounter) + 1",
                        "self.scopeStack[len(self.scopeStack) - 1][7] == old(self.localVarsDefined)"], props=P18 + ["C17"],
               note="every TAL element starts with a clean register set; the enclosing element's registers (including its localVarsDefined) are saved")
