"""C19 - privileges are dropped completely and in the right order at start-up.

Loop-free code over three booleans and a handful of external calls: the symbolic executor
enumerates every path (8 configurations x each privileged call returning | raising), so the
obligations below are a complete case analysis, not a bounded one.
"""
import z3
from pyvc.values import *  # noqa
from pyvc import externals as X
from pyvc.engine import Raised

INIT = "pygopherd/initialization.py::"


def _server_ctor(eng, world, clsname, args, kwargs, node, fr):
    eng.assumptions_used.add("constructing the TCP server class binds the listening socket (socketserver.TCPServer.__init__ -> server_bind) or raises OSError")
    X.trace_event(eng, "bind", [])
    if eng.branch_fresh("fails_bind"):
        X.trace_event(eng, "FAILED:bind", [])
        raise Raised(VExc("OSError", X.oserror_args(eng, "bind")), getattr(node, "lineno", None))
    o = VObj("Server", name=eng.fresh_name("server"))
    o.fresh_alloc = True
    return o


def _ssl_create_default_context(eng, world, args, kwargs, node):
    o = VObj("SSLContext", name=eng.fresh_name("sslctx"))
    o.fresh_alloc = True
    return o


def _load_cert_chain(eng, world, selfobj, args, kwargs, node):
    eng.assumptions_used.add("SSLContext.load_cert_chain reads the key files or raises ssl.SSLError/OSError")
    X.trace_event(eng, "load_cert_chain", [])
    if eng.branch_fresh("fails_load_cert_chain"):
        X.trace_event(eng, "FAILED:load_cert_chain", [])
        raise Raised(VExc("OSError", X.oserror_args(eng, "ssl")), getattr(node, "lineno", None))
    return NONE


X.EXT_IMPL["ssl.create_default_context"] = _ssl_create_default_context
X.OBJ_IMPL[("SSLContext", "load_cert_chain")] = _load_cert_chain
X.MODULES.add("ssl.Purpose")
X.CONSTS["ssl.Purpose.CLIENT_AUTH"] = 1

USECHROOT = "old(config.getboolean('pygopherd', 'usechroot'))"
HASUID = "old(config.has_option('pygopherd', 'setuid'))"
HASGID = "old(config.has_option('pygopherd', 'setgid'))"


def register(w):
    w.always_standin["C19"] = [("pygopherd/initialization.py::initialize", "the whole start-up run against recorders (bind busy once / for good, each privileged call failing in turn, all option combinations): a net under the proof for restructured start-up code")]
    w.contract(
        INIT + "init_security",
        params={"config": "obj:Config"},
        ghost={"trace": "trace", "log": "log"},
        raises={"OSError": True, "KeyError": True},
        ensures=[
            "S.priv_complete(S.trace_names(ghost.trace), %s, %s, %s)" % (USECHROOT, HASUID, HASGID),
            "S.priv_order_ok(S.trace_names(ghost.trace))",
            "S.priv_args_ok(ghost.trace, old(config.get('pygopherd', 'root')), S.lookup_id(ghost.trace, 'pwd.getpwnam'), S.lookup_id(ghost.trace, 'grp.getgrnam'))",
            "implies(%s, config.get('pygopherd', 'root') == '/')" % USECHROOT,
        ],
        on_raise={"*": [
            "S.aborted_cleanly(S.trace_names(ghost.trace))",
            "S.priv_order_ok(S.strip_failed(S.trace_names(ghost.trace)))",
            "S.priv_args_ok(ghost.trace, old(config.get('pygopherd', 'root')), S.lookup_id(ghost.trace, 'pwd.getpwnam'), S.lookup_id(ghost.trace, 'grp.getgrnam'))",
        ]},
        canary="not ('os.chroot' in S.trace_names(ghost.trace))",
        opts={"inline_module_helpers": True},
        props=["C19"],
    )
    w.contract(
        INIT + "get_server",
        params={"config": "obj:Config", "context": "opt[obj:SSLContext]"},
        ghost={"trace": "trace", "log": "log"},
        raises={"OSError": True, "RuntimeError": "config.get('pygopherd', 'servertype') != 'ForkingTCPServer' and config.get('pygopherd', 'servertype') != 'ThreadingTCPServer'"},
        modifies=["ghost.trace", "ghost.log"],
        returns="obj:Server",
        ensures=["S.trace_names(ghost.trace) == S.trace_names(old(ghost.trace)) + ['bind']"],
        on_raise={"OSError": ["S.trace_names(ghost.trace) == S.trace_names(old(ghost.trace)) + ['bind', 'FAILED:bind']"],
                  "RuntimeError": ["S.trace_names(ghost.trace) == S.trace_names(old(ghost.trace))"]},
        opts={"construct:ForkingTCPServer": _server_ctor, "construct:ThreadingTCPServer": _server_ctor},
        props=["C19"],
    )
    w.contract(
        INIT + "init_ssl_context",
        params={"config": "obj:Config"},
        ghost={"trace": "trace", "log": "log"},
        raises={"OSError": "config.has_option('pygopherd', 'enable_tls') and config.getboolean('pygopherd', 'enable_tls')"},
        modifies=["ghost.trace"],
        returns="opt[obj:SSLContext]",
        ensures=["S.trace_names(ghost.trace) == S.trace_names(old(ghost.trace)) + (['load_cert_chain'] if (config.has_option('pygopherd', 'enable_tls') and config.getboolean('pygopherd', 'enable_tls')) else [])"],
        on_raise={"OSError": ["S.trace_names(ghost.trace) == S.trace_names(old(ghost.trace)) + ['load_cert_chain', 'FAILED:load_cert_chain']"]},
        props=["C19"],
    )
    # start-up steps that are outside the property: assumed frame "does not touch the privilege trace"
    for fn, params, raises in (
        ("init_config", {"filename": "str"}, {"Exception": True}),
        ("init_logger", {"config": "obj:Config", "filename": "str"}, {"Exception": True}),
        ("init_exceptions", {"config": "obj:Config"}, {}),
        ("init_mimetypes", {"config": "obj:Config"}, {"Exception": True}),
        ("init_conditional_detach", {"config": "obj:Config"}, {"OSError": True}),
        ("init_pidfile", {"config": "obj:Config"}, {"OSError": True}),
        ("init_process_group", {"config": "obj:Config"}, {}),
        ("init_signal_handlers", {}, {}),
    ):
        w.contract(INIT + fn, params=params, raises=raises, modifies=[], assumed=True,
                   returns="obj:Config" if fn == "init_config" else None,
                   note="assumed frame: performs none of chroot/chdir/setgroups/setregid/setreuid/bind/load_cert_chain (syntactic check C19.ast.no-priv-calls-elsewhere)",
                   props=["C19"])
    w.contract(
        INIT + "initialize",
        params={"filename": "str"},
        ghost={"trace": "trace", "log": "log"},
        raises={"Exception": True},
        ensures=[
            "S.startup_order_ok(S.trace_names(ghost.trace))",
            "'bind' in S.trace_names(ghost.trace)",
            # completeness at the level of the whole start-up: what the configuration asks for is done, whoever starts the server
            "S.count(S.trace_names(ghost.trace), 'os.chroot') == (1 if config.getboolean('pygopherd', 'usechroot') else 0)",
            "S.count(S.trace_names(ghost.trace), 'os.setreuid') == (1 if config.has_option('pygopherd', 'setuid') else 0)",
            "S.count(S.trace_names(ghost.trace), 'os.setregid') == (1 if config.has_option('pygopherd', 'setgid') else 0)",
        ],
        on_raise={"*": ["S.startup_order_ok(S.strip_failed(S.trace_names(ghost.trace)))",
                        "implies('FAILED' in ''.join(S.trace_names(ghost.trace)), S.aborted_cleanly(S.trace_names(ghost.trace)))"]},
        opts={"inline_callees": [INIT + "init_security", INIT + "get_server", INIT + "init_ssl_context"], "inline_module_helpers": True,
              "construct:ForkingTCPServer": _server_ctor, "construct:ThreadingTCPServer": _server_ctor},
        props=["C19"],
    )

    def no_priv_calls_elsewhere(world):
        """Frame of the assumed start-up steps, checked syntactically: the privileged entry points are called
        only by init_security / init_ssl_context or by module-level helpers reachable only from them (those are
        inlined into the verified body)."""
        import ast
        bad = []
        priv = {"chroot", "chdir", "setgroups", "setregid", "setreuid", "setuid", "setgid", "load_cert_chain", "seteuid", "setegid", "setresuid", "setresgid"}
        rf = "pygopherd/initialization.py"
        funcs = world.repo.modfuncs.get(rf, {})

        def callees(fn):
            out = set()
            for n in ast.walk(fn.node):
                if isinstance(n, ast.Call) and isinstance(n.func, ast.Name) and n.func.id in funcs:
                    out.add(n.func.id)
            return out

        reach = set()
        todo = ["init_security", "init_ssl_context"]
        while todo:
            f = todo.pop()
            if f in reach or f not in funcs:
                continue
            reach.add(f)
            todo.extend(callees(funcs[f]))
        def has_priv(fn):
            return any(isinstance(n, ast.Call) and isinstance(n.func, ast.Attribute) and n.func.attr in priv for n in ast.walk(fn.node))

        privfun = {n for n, fn in funcs.items() if has_priv(fn)}
        changed = True
        while changed:
            changed = False
            for n, fn in funcs.items():
                if n not in privfun and callees(fn) & privfun and n not in ("initialize",):
                    privfun.add(n)
                    changed = True
        for n in sorted(privfun):
            if n not in reach:
                bad.append("%s performs privileged calls but is not part of init_security/init_ssl_context" % n)
        for name, fn in funcs.items():
            if name in reach or name == "initialize":
                continue
            for c in callees(fn) & privfun:
                bad.append("%s calls privileged helper %s" % (name, c))
        for rfile, (src, tree) in world.repo.files.items():
            if not rfile.startswith("pygopherd/") or rfile.endswith("testutil.py") or rfile == rf:
                continue
            for fn in ast.walk(tree):
                if isinstance(fn, ast.FunctionDef):
                    for n in ast.walk(fn):
                        if isinstance(n, ast.Call) and isinstance(n.func, ast.Attribute) and n.func.attr in priv:
                            bad.append("%s:%s calls %s (line %d)" % (rfile, fn.name, n.func.attr, n.lineno))
        return (not bad, bad or "privileged calls occur only in init_security/init_ssl_context and helpers reachable only from them")

    w.astcheck("C19.ast.no-priv-calls-elsewhere", ["C19"], no_priv_calls_elsewhere)

    def start_script(world):
        """bin/pygopherd does nothing between initialize() and serve_forever(): the configuration that init_security
        rewrote after the chroot (document root '/') is the one the server serves with."""
        import ast as _ast, os as _os
        path = _os.path.join(world.repo.root, "bin", "pygopherd") if hasattr(world.repo, "root") else "/repo/bin/pygopherd"
        try:
            tree = _ast.parse(open(path).read())
        except OSError:
            return (True, "bin/pygopherd not present")
        body = [st for st in tree.body if not isinstance(st, (_ast.Import, _ast.ImportFrom))]
        texts = [_ast.unparse(st) for st in body]
        bad = []
        try:
            i = next(k for k, t in enumerate(texts) if "initialization.initialize(" in t)
        except StopIteration:
            return (False, ["bin/pygopherd no longer calls initialization.initialize()"])
        after = texts[i + 1:]
        if after != ["s.serve_forever()"]:
            bad.append("bin/pygopherd runs %r between initialize() and serve_forever()" % after)
        for t in texts[:i]:
            if any(k in t for k in ("chroot", "setuid", "setgid", "setreuid", "setregid", "setgroups", ".bind(")):
                bad.append("bin/pygopherd performs a privileged call itself: %s" % t[:80])
        return (not bad, bad or "the start script only parses its arguments, initialises and serves")

    w.astcheck("C19.ast.start-script", ["C19"], start_script)
