"""C16 - ZIP archives are transparent: what contracts can carry.

  (a) real-file-only handlers refuse every request whose file system is an archive (VFSZip);
  (b) VFSZip refines the VFS_Real interface the handler chain was verified against: same result types, and a
      missing member is reported the way a missing file is (OSError from stat/open/listdir, False from
      isdir/isfile/exists), never a KeyError of the member index;
  (c) selector -> member path is exact for every member path;
  (d) ZIPHandler.canhandlerequest splits the selector at a prefix of the filtered selector that matches the
      configured pattern, and the wrapper delegates everything to the handler chosen on the archive.
The member index itself (populate_cache/_getcacheinode: dict-of-dicts with an untagged union) is outside the
subset; it is covered by the bounded stand-in r_zip (archive vs. extracted tree)."""
H = "pygopherd/handlers/"
Z = H + "ZIP.py::VFSZip."
ZH = H + "ZIP.py::ZIPHandler."
GROOT = {"pygopherd/handlers/base.py:rootpath": "opt[str]"}
MROOT = "g:pygopherd/handlers/base.py:rootpath"
INV = ["S.secure(self.selector)", "self.selector.startswith('/')"]
ROOT = "self.config.get('pygopherd', 'root')"
VFSREQ = ["G.rootpath is None or G.rootpath == '' or G.rootpath == %s" % ROOT, "S.abs_root(%s)" % ROOT, "self.vfs.config is self.config"]
ENTRY = "either[dict[str,str],str]"


def register(w):
    w.fields("VFSZip", zipfilename="str", zip="obj:ZipFile", dircache="opaque:dircache", entrycache="opaque:entrycache",
             invalid_paths="opaque:set", zipfd="obj:RFile")
    P = ["C16"]
    w.always_standin["C11"] = [(Z + "init_cache", "what a later read through a lazily loaded shelf raises for a damaged cache file depends on the dbm backend: every prefix / zero fill of every cache file"),
                               ("pygopherd/handlers/dir.py::DirHandler.savecache", "what a writer killed after k bytes leaves behind in the served directory is a property of the crash history, not of one call: forked writers killed in mid-write, then the next listing")]
    w.always_standin["C16"] = [(Z + "populate_cache", "the member index (dict of dicts, untagged union, symlink fixpoint) is outside the subset: archive vs. extracted tree")]
    LOOP = {0: dict(invariant=["self.selector.startswith(basename)", "basename.startswith('/')", "S.secure(basename)", "S.safe_sel(basename)",
                               "(appendage is None) == (basename == self.selector)"],
                    decreases="len(basename)", havoc=["basename", "appendage", "head", "tail"], types={"appendage": "opt[str]"})}
    LEM = [("lemma", "prefix-secure", {"sel": "self.selector", "real": "basename"}), ("lemma", "no-climb", {"s": "basename", "root": ROOT})]
    # ---- (a) handlers that need a real file ------------------------------------------------------------
    ZF = {"vfs": "obj:VFSZip"}
    for q, classes in ((H + "mbox.py::MBoxFolderHandler.canhandlerequest", ["MBoxFolderHandler"]),
                       (H + "mbox.py::MaildirFolderHandler.canhandlerequest", ["MaildirFolderHandler"]),
                       (H + "mbox.py::MessageHandler.canhandlerequest", ["MBoxMessageHandler", "MaildirMessageHandler"]),
                       (H + "pyg.py::PYGHandler.canhandlerequest", ["PYGHandler"]),
                       (H + "scriptexec.py::ExecHandler.canhandlerequest", ["ExecHandler"]),
                       (ZH + "canhandlerequest", ["ZIPHandler"])):
        w.contract(q, selfclass=["<zip>" + c for c in classes], fields=ZF,
                   requires=INV, modifies=[], raises={}, returns="opt[bool]",
                   loops=LOOP if "ZIP.py" in q else {},
                   ensures=["not result"],
                   note="inside an archive (self.vfs is a VFSZip) the handler refuses the request before touching anything: "
                        "it needs a path on the real file system, and a member's getfspath() is relative to the archive",
                   props=["C16", "C01"])
    # ---- (d) the archive / member split ---------------------------------------------------------------------
    w.contracts.pop((ZH + "canhandlerequest", "ZIPHandler"), None)
    w.contract(ZH + "canhandlerequest", selfclass=["ZIPHandler"], globals=GROOT,
               requires=INV + VFSREQ, modifies=["self.basename", "self.appendage", MROOT], raises={}, returns="bool",
               use_lemmas=[("no-climb", {"s": "self.selector", "root": ROOT})],
               loops=LOOP, at={"after:basename = head": LEM},
               ensures=["implies(result, self.selector.startswith(self.basename) and S.secure(self.basename) and self.basename.startswith('/'))",
                        "implies(result, (self.appendage is None) == (self.basename == self.selector))",
                        "implies(not self.config.getboolean('handlers.ZIP.ZIPHandler', 'enabled'), not result)"],
               note="the archive path is a prefix of the filtered selector (so it is itself filtered, lemma prefix-secure) found by walking up the path; "
                    "the member path is None exactly when the selector names the archive itself; every probe (isfile, getfspath) gets a safe path",
               props=["C16", "C01", "C05"])
    for m, ret in (("isdir", "bool"), ("getdirlist", "list[obj:GopherEntry]"), ("getentry", "obj:GopherEntry")):
        pass
    # ---- (c) selector -> member path ---------------------------------------------------------------------
    w.contract(Z + "_getfspathfinal", params={"selector": "str"}, modifies=[], raises={}, returns="str",
               ensures=["implies(selector == self.zipfilename, result == '')",
                        "implies(selector == self.zipfilename + '/', result == '')",
                        "implies(selector.startswith(self.zipfilename + '/') and not selector.endswith('/') and not selector[len(self.zipfilename) + 1:].startswith('/'), "
                        "self.zipfilename + '/' + result == selector)",
                        "implies(selector.startswith(self.zipfilename + '/') and selector.endswith('/') and len(selector) > len(self.zipfilename) + 1 "
                        "and not selector[len(self.zipfilename) + 1:].startswith('/'), self.zipfilename + '/' + result + '/' == selector)"],
               canary="result == selector",
               note="for a member path m (no leading or trailing slash) the selector <archive>/m maps to exactly m, and the archive itself to the root ''", props=P)
    w.contract(Z + "getfspath", params={"selector": "str"}, modifies=[], raises={}, returns="str",
               ensures=["implies(selector == self.zipfilename, result == '')",
                        "implies(selector.startswith(self.zipfilename + '/') and not selector.endswith('/') and not selector[len(self.zipfilename) + 1:].startswith('/'), "
                        "self.zipfilename + '/' + result == selector)"], props=P)
    # ---- member index: assumed interface (bounded stand-in r_zip) ---------------------------------------------
    w.contract(Z + "_getcacheentry", params={"fspath": "str"}, modifies=["self.entrycache", "self.invalid_paths"], raises={"KeyError": True}, returns=ENTRY,
               assumed=True, note="member index lookup: a directory (dict name -> inode) or a member name (str); KeyError when the path is not in the archive. "
                                  "The index (populate_cache/_getcacheinode) is a dict of dicts with an untagged union and is outside the subset: bounded stand-in r_zip.", props=P)
    w.contract(Z + "_isentryincache", params={"fspath": "str"}, modifies=["self.entrycache", "self.invalid_paths"], raises={}, returns="bool", props=P,
               note="never lets the index's KeyError escape")
    # ---- (b) VFSZip refines VFS_Real --------------------------------------------------------------------------
    MOD = ["self.entrycache", "self.invalid_paths"]
    w.contract(Z + "stat", params={"selector": "str"}, modifies=MOD, raises={"OSError": True}, returns="tuple[int,int,int,int,int,int,int,real,real,real]",
               ensures=["stat.S_ISDIR(result[0]) or stat.S_ISREG(result[0])", "result[6] >= 0",
                        "implies(stat.S_ISDIR(result[0]), result[0] == 16877)", "implies(stat.S_ISREG(result[0]), result[0] == 33188)",
                        "(result[0] & stat.S_IXOTH) == 0 or stat.S_ISDIR(result[0])"],
               note="a missing member is an OSError exactly like a missing file (VFS_Real.stat raises OSError); members are never executable", props=P)
    for m in ("isdir", "isfile", "exists"):
        w.contract(Z + m, params={"selector": "str"}, modifies=MOD, raises={}, returns="bool", props=P,
                   note="missing members answer False, like os.path.%s" % m)
    w.contract(Z + "listdir", params={"selector": "str"}, modifies=MOD, raises={"OSError": True}, returns="list[str]", props=P)
    w.contract(Z + "open", params={"selector": "str", "mode": "str", "errors": "opt[str]"}, modifies=MOD,
               requires=["mode == 'r' or mode == 'rb'"], raises={"OSError": True}, returns="either[obj:RFile,obj:TFile]", props=["C16", "C01"],
               note="binary mode (every handler reads archive members in binary mode except the text-mode title scan, which wraps the same stream)")
    register_cache(w)
    register_wrapper(w)
    register_delegation_ast(w)
    w.contract(Z + "iswritable", params={"selector": "str"}, modifies=[], raises={}, returns="bool", ensures=["result == False"], props=P,
               note="nothing is ever written into an archive (so DirHandler never tries to cache a listing inside it)")


def register_cache(w):
    """C11 for the ZIP member cache: a damaged or half-written cache file must never make a request fail."""
    HB = "pygopherd/handlers/base.py::"
    CH = ["self.chain is not None", "self.chain.config is self.config", "G.rootpath is None or G.rootpath == '' or G.rootpath == %s" % ROOT, "S.abs_root(%s)" % ROOT,
          "S.safe_sel(self.zipfilename)"]
    w.fields("VFSZip", dircache="dict[str,opaque:inode]")
    w.contract(Z + "get_cache_filename", requires=["S.safe_sel(self.zipfilename)"], modifies=[], raises={}, returns="str", props=["C11", "C16", "C01"],
               ensures=["S.safe_sel(result)", "result != self.zipfilename", "result.endswith('.cache.pygopherd.zip3.' + os.path.split(self.zipfilename)[1])",
                        "result.startswith(os.path.split(self.zipfilename)[0])"],
               note="dirname(zipfilename)/.cache.pygopherd.zip3.<basename>: a sibling of the archive, never the archive itself (path arithmetic over os.path.split/join)")
    w.contract(Z + "populate_cache", modifies=["self.dircache", "self.entrycache", "self.invalid_paths"], raises={}, assumed=True, props=["C11", "C16"],
               note="builds the member index from the archive itself (bounded stand-in r_zip)")
    for m in ("save_cache", "init_cache"):
        w.contracts.pop((Z + m, None), None)
    w.contract(Z + "save_cache", globals=GROOT, requires=CH, modifies=[MROOT], raises={}, returns="bool",
               loops={0: dict(invariant=["True"], havoc=["db", "key", "value"], types={"db": "dict[str,opaque:inode]"})}, props=["C11", "C16", "C01"],
               note="the cache is rewritten from scratch (flag 'n'): what a killed or racing writer left on disk is never parsed, and an OSError while writing only means 'not cached'")
    w.contract(Z + "init_cache", globals=GROOT, requires=CH, modifies=[MROOT, "self.dircache", "self.entrycache", "self.invalid_paths"], raises={"OSError": True},
               props=["C11", "C16", "C01"],
               note="an unreadable, truncated or corrupt cache (any exception of shelve.open in read mode) leads to a rebuild from the archive; the only exception that can "
                    "escape is the OSError of stat()ing the archive itself")


def register_wrapper(w):
    """ZIPHandler is a thin wrapper: the handler chain is re-run on the archive's VFS for the same selector, and
    every operation is delegated to the handler chosen there."""
    DEL = ["self.selector.startswith('/')", "S.abs_root(%s)" % ROOT, "self.vfs.config is self.config",
           "G.rootpath is None or G.rootpath == '' or G.rootpath == %s" % ROOT, "HM.rootpath is None or HM.rootpath == '' or HM.rootpath == %s" % ROOT]
    w.contracts.pop((Z + "__init__", None), None)
    w.contract(Z + "__init__", params={"config": "obj:Config", "chain": "obj:VFS_Real", "zipfilename": "str"}, modifies=["self.*"], raises={"Exception": True}, assumed=True,
               ensures=["self.config is config", "self.chain is chain", "self.zipfilename == zipfilename"],
               note="opens the archive through the parent VFS (chain.open(zipfilename), zipfilename a prefix of the filtered selector: ZIPHandler.canhandlerequest.ensures) "
                    "and builds or loads the member index; zipfile.ZipFile may raise for a damaged archive", props=["C01", "C16"])
    HMG = {"pygopherd/handlers/HandlerMultiplexer.py:handlers": "opt[list[class:AnyHandler]]", "pygopherd/handlers/HandlerMultiplexer.py:rootpath": "opt[str]"}
    w.contract(ZH + "_makehandler", selfclass=["ZIPHandler"], globals=GROOT,
               requires=["self.selector.startswith('/')", "S.abs_root(%s)" % ROOT, "self.vfs.config is self.config", "G.rootpath is None or G.rootpath == '' or G.rootpath == %s" % ROOT],
               modifies=["self.handler", MROOT],
               raises={"Exception": True},
               ensures=["hasattr(self, 'handler')", "implies(not old(hasattr(self, 'handler')), self.handler.nofs or (S.secure(self.handler.selector) and self.handler.selector.startswith('/')))"],
               at={"after~self.handler = HandlerMultiplexer.getHandler(": [("assert", "vfs.zipfilename == self.basename and vfs.chain is self.vfs and vfs.config is self.config")]},
               opts={"must_hit": ["after~self.handler = HandlerMultiplexer.getHandler("]},
               note="the inner handler is chosen by the ordinary chain (so the selector passes the filter again) on a VFSZip opened on exactly the archive path "
                    "canhandlerequest found, chained to the wrapper's own file system", props=["C16", "C01"])


def register_delegation_ast(w):
    import ast

    def delegation(world):
        """ZIPHandler.prepare/isdir/getdirlist/write/getentry do nothing but (make the inner handler and) call the
        method of the same name on it with the same arguments."""
        bad = []
        for m in ("prepare", "isdir", "getdirlist", "write", "getentry"):
            fi = world.repo.get(ZH + m)
            if fi is None:
                bad.append("ZIPHandler.%s not found" % m)
                continue
            body = [st for st in fi.node.body if not (isinstance(st, ast.Expr) and isinstance(st.value, ast.Constant))]
            texts = [ast.unparse(st) for st in body]
            args = ", ".join(a.arg for a in fi.node.args.args[1:])
            call = "self.handler.%s(%s)" % (m, args)
            ok = texts in ([call], ["return " + call], ["self._makehandler()", call], ["self._makehandler()", "return " + call])
            if not ok:
                bad.append("ZIPHandler.%s is no longer a plain delegation: %s" % (m, texts))
        return (not bad, bad or "five one-line delegations to the handler chosen on the archive")

    w.astcheck("C16.ast.wrapper-delegates", ["C16"], delegation, soft=True)
