"""C01 - nothing outside the document root is read, listed, run or revealed."""
import ast

import z3
from pyvc.values import *  # noqa
from pyvc import externals as X
from pyvc.engine import Raised, OutOfSubset

HB = "pygopherd/handlers/base.py::"
ROOT = "self.config.get('pygopherd', 'root')"


def _os_sink(name, kind="path", raises=("OSError",), returns=None, probe=False):
    """An operating-system entry point that touches the file system: obligation `under(root, path)`."""

    def impl(eng, world, args, kwargs, node):
        p = eng.force(args[0])
        root = X.OBJ_IMPL[("Config", "get")](eng, world, eng.ghost["sink_config"], [VStr("pygopherd"), VStr("root")], {}, node)
        eng.assumptions_used.add("POSIX path resolution is lexical when no symbolic link leaves the document root (the property's hypothesis): a path equal to the root or below it with no '..' component is resolved inside the root")
        fr = eng.frame_stack[-1]
        from pyvc.engine import Frame
        sf = Frame(None, None, {"p": VStr(p.z), "root": root}, "spec/specs.py")
        goal = eng.eval_merged(lambda: eng.truth(eng.eval_str("S.under(root, p)", sf)))
        if not probe:
            eng.oblige("%s.sink[%s]" % (eng.cur_label, name), goal, kind="sink", site=getattr(node, "lineno", None), note="S.under(root, <path given to %s>)" % name)
        eng.assumptions_used.add("os.stat/open/listdir/... raise OSError on failure, and ValueError when the path contains an embedded NUL")
        if eng.branch(z3.Contains(zstr(p.z), z3.StringVal("\0"))):
            raise Raised(VExc("ValueError", [VStr("embedded null byte")]), getattr(node, "lineno", None))
        if eng.branch_fresh("oserror_" + name.replace(".", "_")):
            raise Raised(VExc("OSError", X.oserror_args(eng, name)), getattr(node, "lineno", None))
        if returns is None:
            return NONE
        return returns(eng, p)

    return impl


def _fsencode(eng, world, args, kwargs, node):
    eng.assumptions_used.add("os.fsencode/os.fsdecode are mutually inverse (surrogateescape): the path the OS sees is the string built by getfspath")
    s = eng.force(args[0])
    return VStr(s.z, True)


def _fsdecode(eng, world, args, kwargs, node):
    s = eng.force(args[0])
    return VStr(s.z, False)


def _ret_stat(eng, p):
    return eng.fresh("stat", "os_stat")


def _ret_bool(eng, p):
    return VBool(z3.Bool(eng.fresh_name("os_pred")))


def _ret_file(eng, p):
    o = VObj("RFile", name=eng.fresh_name("osfile"))
    o.fieldty = {"content": "bytes", "pos": "nat"}
    o.fields["pos"] = VInt(0)
    cz = z3.Function("fs_content", z3.StringSort(), z3.StringSort())(zstr(p.z))
    eng.assume(z3.InRe(cz, z3.Star(z3.Range(z3.StringVal("\x00"), z3.StringVal("\xff")))))
    o.fields["content"] = VStr(cz, True)
    o.fields["path"] = VStr(p.z)
    of = eng.ghost.get("open_files")
    if of is not None:
        of.items.append(o)
    return o


def _ret_names(eng, p):
    """os.listdir: names are non-empty, contain no '/', are not '.' or '..' (POSIX readdir + CPython)."""
    eng.assumptions_used.add("os.listdir returns each entry name once; names are non-empty, contain no '/' or NUL, and are never '.' or '..'")
    n = z3.Int(eng.fresh_name("listdir_n"))
    eng.assume(n >= 0)
    base = eng.fresh_name("listdir_name")
    f = z3.Function(base, z3.IntSort(), z3.StringSort())

    def get(i):
        e = f(zint(i))
        key = ("ldax", base, z3.simplify(zint(i)).sexpr())
        if eng.pc.need_axioms(key):
            eng.assume(z3.And(z3.Length(e) > 0, z3.Not(z3.Contains(e, z3.StringVal("/"))), z3.Not(z3.Contains(e, z3.StringVal("\0"))),
                              e != z3.StringVal("."), e != z3.StringVal("..")))
        return VStr(e, True)

    return VList(None, n, get, "bytes")


def _isdir_like(name):
    # os.path.isdir/isfile/exists never raise OSError (they return False), but ValueError on NUL is swallowed too (3.8+)
    def impl(eng, world, args, kwargs, node):
        p = eng.force(args[0])
        root = X.OBJ_IMPL[("Config", "get")](eng, world, eng.ghost["sink_config"], [VStr("pygopherd"), VStr("root")], {}, node)
        from pyvc.engine import Frame
        sf = Frame(None, None, {"p": VStr(p.z), "root": root}, "spec/specs.py")
        goal = eng.eval_merged(lambda: eng.truth(eng.eval_str("S.under(root, p)", sf)))
        eng.oblige("%s.sink[%s]" % (eng.cur_label, name), goal, kind="sink", site=getattr(node, "lineno", None), note="S.under(root, <path given to %s>)" % name)
        # what the file system says about a path is a function of the path for the duration of a request
        eng.assumptions_used.add("os.path.isdir/isfile/exists are functions of the path for the duration of a request (no concurrent modification)")
        return VBool(X.sfun("fs_" + name.rsplit(".", 1)[1], X.STR, X.BOOL)(X.S(p.z)))

    return impl


X.EXT_IMPL["os.fsencode"] = _fsencode
X.EXT_IMPL["os.fsdecode"] = _fsdecode
X.EXT_IMPL["os.stat"] = _os_sink("os.stat", returns=_ret_stat, probe=True)
X.EXT_IMPL["os.unlink"] = _os_sink("os.unlink")
X.EXT_IMPL["os.listdir"] = _os_sink("os.listdir", returns=_ret_names)
X.EXT_IMPL["os.path.isdir"] = _isdir_like("os.path.isdir")
X.EXT_IMPL["os.path.isfile"] = _isdir_like("os.path.isfile")
X.EXT_IMPL["os.path.exists"] = _isdir_like("os.path.exists")
_open_sink = _os_sink("open", returns=_ret_file)
X.ext_open = lambda eng, world, args, kwargs, node: _open_sink(eng, world, args, kwargs, node)


def _setup_sink_config(eng, fr):
    eng.ghost["sink_config"] = eng.getattr(fr.locals["self"], "config")


VFS_METHODS = {
    # name: (params, returns, raises)
    "stat": ({"selector": "str"}, "stat", {"OSError": True, "ValueError": "'\\0' in selector"}),
    "isdir": ({"selector": "str"}, "bool", {}),
    "isfile": ({"selector": "str"}, "bool", {}),
    "exists": ({"selector": "str"}, "bool", {}),
    "unlink": ({"selector": "str"}, None, {"OSError": True}),
    "listdir": ({"selector": "str"}, "list[str]", {"OSError": True}),
    "open": ({"selector": "str", "mode": "str", "errors": "opt[str]"}, "obj:RFile", {"OSError": True}),
}


def register(w):
    w.fields("VFS_Real", config="obj:Config", chain="opt[obj:VFS_Real]")
    w.fields("BaseHandler", vfs="obj:VFS_Real")
    ROOTINV = "rootpath is None or rootpath == '' or rootpath == self.config.get('pygopherd', 'root')"

    # ---- the filter itself ----------------------------------------------------------------------
    w.contract(
        HB + "BaseHandler.isrequestsecure",
        selfclass=[c for c in w.repo.subclasses("BaseHandler") if w.repo.resolve_method(c, "isrequestsecure").cls == "BaseHandler"],
        modifies=[], raises={}, returns="bool",
        ensures=["result == S.secure(self.selector)"],
        canary="implies(result, '.' not in self.selector)",
        props=["C01", "C12"],
    )
    w.lemma("no-climb", ["s:str", "root:str"],
            hyp=["S.secure(s)", "s.startswith('/')", "S.abs_root(root)"],
            goal=["S.safe_sel(s)"], props=["C01"],
            note="a selector that passes the filter has no '..' component; with safe-sel-resolves-under-root: it resolves under the root")
    w.lemma("safe-sel-resolves-under-root", ["s:str", "root:str"],
            hyp=["S.safe_sel(s)", "S.abs_root(root)"],
            goal=["S.under(root, S.fspath_of(root, s))"], props=["C01"])
    w.lemma("substring-closed", ["s:str", "a:str", "c:str", "b:str"],
            hyp=["S.secure(s)", "s == a + c + b"], goal=["S.secure(c)"], props=["C01"],
            note="the filter is closed under taking substrings: real-selector prefixes of virtual selectors, selector[2:] of the type rewriter")
    w.lemma("suffix-safe", ["s:str", "n:str"],
            hyp=["S.secure(s)", "s.startswith('/')", "S.child_name_ok(n)"],
            goal=["S.safe_sel(s + '/' + n)", "S.safe_sel((s if s != '/' else '') + '/' + n)"], props=["C01"],
            note="directory children, /gophermap, /new, /cur, cache file names")
    w.lemma("extension-safe", ["s:str", "ext:str"],
            hyp=["S.safe_sel(s)", "'/' not in ext", "'\\0' not in ext", "ext.startswith('.')", "not ext.startswith('..')", "not s.endswith('.')"],
            goal=["S.safe_sel(s + ext)"], props=["C01"],
            note="sidecar extensions (.abstract ...) appended to a safe path keep it safe (the last component cannot become '..')")
    w.lemma("url-shape-is-insecure", ["s:str"], hyp=["S.url_shape(s)"], goal=["not S.secure(s)", "'//' in s"], props=["C01"],
            note="URL-shaped selectors contain '//' and are therefore never served by a file-system handler")

    # ---- VFS_Real: path construction and the OS-level sinks -----------------------------------------
    w.contract(
        HB + "VFS_Real.getrootpath",
        globals={"rootpath": "opt[str]"},
        requires=[ROOTINV, "S.abs_root(%s)" % ROOT],
        modifies=["g:rootpath"], raises={}, returns="str",
        ensures=["result == %s" % ROOT, ROOTINV],
        props=["C01", "C03"],
    )
    w.contract(
        HB + "VFS_Real.getfspath",
        params={"selector": "str"},
        globals={"rootpath": "opt[str]"},
        requires=[ROOTINV, "S.abs_root(%s)" % ROOT],
        modifies=["g:rootpath"], raises={}, returns="str",
        ensures=["result == S.fspath_of(%s, selector)" % ROOT, ROOTINV],
        canary="result == %s + selector" % ROOT,
        props=["C01", "C05", "C04"],
    )
    for name, (params, returns, raises) in VFS_METHODS.items():
        req = [ROOTINV, "S.abs_root(%s)" % ROOT]
        if name != "stat":
            req.append("S.safe_sel(selector)")
        else:
            # stat is also used as a pre-filter probe (getHandler, Virtual.__init__): its precondition is
            # only NUL-free absolute selector space; that its result cannot influence the response for an
            # insecure selector is obligation C01.ast.statresult-only-after-filter
            req.append("selector.startswith('/')")
        w.contract(
            HB + "VFS_Real." + name,
            params=params, globals={"rootpath": "opt[str]"},
            requires=req, modifies=["g:rootpath"] + (["ghost.open_files"] if name == "open" else []), raises=raises, returns=returns,
            on_raise={"*": [ROOTINV]},
            ensures=[ROOTINV] + (["result.pos == 0", "ghost.open_files == old(ghost.open_files) + [result]",
                                   "result.content == fs_content(S.fspath_of(%s, selector))" % ROOT] if name == "open" else [])
                    + (["result == fs_%s(S.fspath_of(%s, selector))" % (name, ROOT)] if name in ("isdir", "isfile", "exists") else []),
            setup=_setup_sink_config,
            ghost={"open_files": "trace"},
            use_lemmas=[("safe-sel-resolves-under-root", {"s": "selector", "root": ROOT})] if name != "stat" else [],
            result_elem="S.child_name_ok(elem)" if name == "listdir" else None,
            props=["C01", "C04", "C12", "C03"] if name in ("open", "stat") else ["C01", "C12", "C03"],
        )
    register2(w)
    register3(w)
    register4(w)
    register5(w)
    register_ast(w)
    w.finalizers.append(_root_invariant_everywhere)


def _root_invariant_everywhere(w):
    """Every contract that may initialise the lazily cached root re-establishes its invariant, on normal
    and on exceptional exit (run after all contract files are loaded)."""
    for (q, k), c in list(w.contracts.items()):
        if c.modifies and (MROOT in c.modifies) and not any("G.rootpath" in e for e in c.ensures):
            cfg = "config" if "config" in c.params else "self.config"
            inv = "G.rootpath is None or G.rootpath == '' or G.rootpath == %s.get('pygopherd', 'root')" % cfg
            c.ensures.append(inv)
            c.on_raise.setdefault("*", []).append(inv)
            if not c.qualname.startswith("pygopherd/handlers/base.py"):
                c.globals.setdefault("pygopherd/handlers/base.py:rootpath", "opt[str]")


# =====================================================================================================
# Layer 2: handler selection
# =====================================================================================================
H = "pygopherd/handlers/"
INV = ["S.secure(self.selector)", "self.selector.startswith('/')"]
VFSREQ = ["G.rootpath is None or G.rootpath == '' or G.rootpath == self.config.get('pygopherd', 'root')",
          "S.abs_root(self.config.get('pygopherd', 'root'))"]
GROOT = {"pygopherd/handlers/base.py:rootpath": "opt[str]"}
MROOT = "g:pygopherd/handlers/base.py:rootpath"

IFACE_SRC = '''
class AnyHandler:
    """Interface of an arbitrary handler class taken from a configured handler list."""
    def __init__(self, selector, searchrequest, protocol, config, statresult, vfs=None):
        pass
    def isrequestforme(self):
        pass
    def gethandler(self):
        pass
'''


def _register_iface(w):
    import ast as _ast
    from pyvc.extract import ClassInfo, FuncInfo
    tree = _ast.parse(IFACE_SRC)
    ci = ClassInfo("iface", tree.body[0])
    w.repo.classes.setdefault("AnyHandler", []).append(ci)
    for m in ci.methods.values():
        fi = FuncInfo("iface", "AnyHandler", m, _ast.get_source_segment(IFACE_SRC, m))
        w.repo.funcs[fi.qualname] = fi
    w.repo.modfuncs.setdefault("iface", {})
    w.repo.modassigns.setdefault("iface", {})


def register2(w):
    _register_iface(w)
    handler_classes = w.repo.subclasses("BaseHandler")
    fs_classes = [c for c in handler_classes if c != "HTMLURLHandler"]
    w.fields("AnyHandler", selector="str", searchrequest="opt[str]", protocol="obj:BaseGopherProtocol", config="obj:Config",
             statresult="opt[stat]", vfs="obj:VFS_Real", nofs="ghost:bool")
    w.fields("BaseHandler", nofs="ghost:bool")

    # ---- interface contracts of an arbitrary configured handler class (assumed here; every concrete
    # ---- subclass of BaseHandler is shown to satisfy them by the per-class obligations below) ------------
    w.contract("iface::AnyHandler.__init__",
               params={"selector": "str", "searchrequest": "opt[str]", "protocol": "obj:BaseGopherProtocol", "config": "obj:Config",
                       "statresult": "opt[stat]", "vfs": "opt[obj:VFS_Real]"},
               modifies=["self.*"], raises={}, assumed=True,
               ensures=["self.selector == selector", "self.config is config", "self.protocol is protocol", "self.searchrequest is searchrequest"],
               note="interface: BaseHandler.__init__ / Virtual.__init__ store the selector unchanged (verified: BaseHandler.__init__ inlined in callers, Virtual.__init__.ensures)",
               props=["C01", "C03", "C12"])
    w.contract("iface::AnyHandler.isrequestforme", modifies=["self.*"], raises={}, returns="bool", assumed=True,
               ensures=["implies(result, self.nofs or S.secure(self.selector))", "self.selector == old(self.selector)",
                        "implies(self.nofs, S.url_shape(self.selector))"],
               note="interface: established for every subclass of BaseHandler by <Class>::BaseHandler.isrequestforme.ensures (nofs is the ghost flag 'this class never touches the file system' = HTMLURLHandler)",
               props=["C01", "C03", "C12"])
    w.contract("iface::AnyHandler.gethandler", modifies=[], raises={"FileNotFound": True}, returns="obj:AnyHandler", assumed=True,
               ensures=["result.nofs or (S.secure(result.selector) and result.selector.startswith('/'))"],
               note="interface: BaseHandler.gethandler returns self; URLTypeRewriter.gethandler re-enters getHandler (URLTypeRewriter.gethandler.ensures)",
               props=["C01", "C03", "C12"])

    # ---- every concrete class satisfies the interface ---------------------------------------------------------
    for cname in handler_classes:
        chr_fi = w.repo.resolve_method(cname, "canhandlerequest")
        key = (chr_fi.qualname, cname)
        if key not in w.contracts and (chr_fi.qualname, None) not in w.contracts:
            pass
    virt = [c for c in fs_classes if w.repo.issubclass(c, "Virtual") and c != "MessageHandler"]
    nonvirt = [c for c in fs_classes if not w.repo.issubclass(c, "Virtual")]
    w.contract(HB + "BaseHandler.isrequestforme",
               selfclass=nonvirt, globals=GROOT,
               requires=["self.selector.startswith('/')", "self.vfs.config is self.config"] + VFSREQ,
               modifies=["self.*", MROOT], raises={}, returns="bool",
               ensures=["implies(result, S.secure(self.selector))", "self.selector == old(self.selector)"],
               props=["C01", "C12"])
    w.contract(HB + "BaseHandler.isrequestforme",
               selfclass=virt, globals=GROOT, label=None,
               requires=["self.selector.startswith('/')", "self.vfs.config is self.config"] + VFSREQ + VSTRUCT,
               modifies=["self.*", MROOT], raises={}, returns="bool",
               ensures=["implies(result, S.secure(self.selector))", "self.selector == old(self.selector)"],
               note="MessageHandler itself is abstract (getargflag raises NotImplementedError) and is not a configurable handler",
               props=["C01", "C12"])
    w.contract(HB + "BaseHandler.isrequestforme",
               selfclass=["HTMLURLHandler"], label="HTMLURLHandler::BaseHandler.isrequestforme",
               modifies=[], raises={}, returns="bool",
               ensures=["implies(result, S.url_shape(self.selector))", "self.selector == old(self.selector)"],
               props=["C01", "C13"])
    w.contract(H + "url.py::HTMLURLHandler.canhandlerequest", selfclass=["HTMLURLHandler"],
               modifies=[], raises={}, returns="opt[opaque:match]",
               ensures=["(result is not None) == S.url_shape(self.selector)"], props=["C01", "C13"])
    w.contract(H + "url.py::HTMLURLHandler.isrequestsecure", selfclass=["HTMLURLHandler"],
               modifies=[], raises={}, returns="bool",
               ensures=["implies(result, S.url_shape(self.selector))",
                        "implies(result, '\\0' not in self.selector and '\\n' not in self.selector and '\\t' not in self.selector and '\"' not in self.selector and '\\r' not in self.selector)"],
               props=["C01", "C13"])

    # ---- first handler whose own test AND the filter accept ------------------------------------------------------
    w.contract(
        H + "HandlerMultiplexer.py::getHandler",
        params={"selector": "str", "searchrequest": "opt[str]", "protocol": "obj:BaseGopherProtocol", "config": "obj:Config",
                "handlerlist": "opt[list[class:AnyHandler]]", "vfs": "opt[obj:VFS_Real]"},
        globals={"handlers": "opt[list[class:AnyHandler]]", "rootpath": "opt[str]", "pygopherd/handlers/base.py:rootpath": "opt[str]"},
        requires=["selector.startswith('/')", "S.abs_root(config.get('pygopherd', 'root'))",
                  "implies(vfs is not None, vfs.config is config)",
                  "G.rootpath is None or G.rootpath == '' or G.rootpath == config.get('pygopherd', 'root')"],
        raises={"FileNotFound": True},
        returns="obj:AnyHandler",
        ensures=["result.nofs or (S.secure(result.selector) and result.selector.startswith('/'))"],
        loops={0: dict(invariant=["True"], index="_k")},
        opts={"cfgeval:handlers.HandlerMultiplexer/handlers": "list[class:AnyHandler]"},
        canary="S.secure(selector)",
        props=["C01", "C03", "C12"])
    w.contract(
        H + "HandlerMultiplexer.py::getHandler", selfclass=["<frame>"], label="getHandler[configured list is never changed]",
        params={"selector": "str", "searchrequest": "opt[str]", "protocol": "obj:BaseGopherProtocol", "config": "obj:Config",
                "handlerlist": "opt[list[class:AnyHandler]]", "vfs": "opt[either[obj:VFS_Real,obj:VFSZip]]"},
        globals={"handlers": "opt[list[class:AnyHandler]]", "rootpath": "opt[str]", "pygopherd/handlers/base.py:rootpath": "opt[str]"},
        requires=["selector.startswith('/')", "S.abs_root(config.get('pygopherd', 'root'))",
                  "implies(vfs is not None, vfs.config is config)",
                  "G.rootpath is None or G.rootpath == '' or G.rootpath == config.get('pygopherd', 'root')"],
        raises={"FileNotFound": True},
        returns="obj:AnyHandler",
        ensures=["implies(old(G.handlers) is not None, G.handlers is not None and len(G.handlers) == len(old(G.handlers)))",
                 "implies(old(G.handlers) is not None and len(old(G.handlers)) > 0, G.handlers[0] is old(G.handlers)[0] and G.handlers[len(G.handlers) - 1] is old(G.handlers)[len(G.handlers) - 1])",
                 "implies(handlerlist is not None, len(handlerlist) == len(old(handlerlist)))"],
        on_raise={"FileNotFound": ["implies(old(G.handlers) is not None, G.handlers is not None and len(G.handlers) == len(old(G.handlers)))"]},
        loops={0: dict(invariant=["True"], index="_k")},
        opts={"cfgeval:handlers.HandlerMultiplexer/handlers": "list[class:AnyHandler]"},
        note="C03 (answers do not depend on earlier requests): looking a handler up, on the real file system or inside an archive, never changes the configured handler list once it is loaded",
        props=["C03", "C16"])


# =====================================================================================================
# Layer 3: every handler's own acceptance test (reached only after the filter: requires INV)
# =====================================================================================================
VLEMMAS = [("prefix-secure", {"sel": "self.selector", "real": "self.selectorreal"}),
           ("no-climb", {"s": "self.selectorreal", "root": "self.config.get('pygopherd', 'root')"}),
           ("suffix-safe", {"s": "self.selectorreal", "n": "'new'"}),
           ("suffix-safe", {"s": "self.selectorreal", "n": "'cur'"})]
VSTRUCT = ["self.selector.startswith(self.selectorreal)", "self.selectorreal.startswith('/')",
           "self.selectorreal == self.selector or self.selector.startswith(self.selectorreal + '?') or self.selector.startswith(self.selectorreal + '|')"]


def register3(w):
    w.fields("MessageHandler", message_num="int", message="maybe:opaque:message")
    w.fields("ZIPHandler", basename="str", appendage="opt[str]", handler="maybe:obj:AnyHandler")
    w.fields("TALFileHandler", talbasename="str", allowpythonpath="int")
    w.fields("CompressedFileHandler", decompressors="maybe:dict[str,str]", decompresspatt="str")
    common = dict(raises={}, props=["C01"])
    # classes that inherit the default (always False)
    w.contract(HB + "BaseHandler.canhandlerequest", selfclass=["BaseHandler", "Virtual", "FolderHandler", "PYGBase"],
               modifies=[], returns="bool", ensures=["result == False"], **common)
    w.contract(H + "dir.py::DirHandler.canhandlerequest", selfclass=["DirHandler", "UMNDirHandler"],
               requires=INV, modifies=[], returns="opt[bool]",
               ensures=["implies(result, self.statresult is not None and stat.S_ISDIR(self.statresult[0]))",
                        "implies(result, not self.selector.endswith('/.'))"],
               note="C10/C03: a directory is listed (and its cache file written) only under a spelling whose child selectors pass the filter: "
                    "'<dir>/.' shares <dir>'s cache file but every child selector built from it contains './'",
               globals=GROOT, props=["C01", "C10", "C03"])
    w.contract(H + "file.py::FileHandler.canhandlerequest", selfclass=["FileHandler", "HTMLFileTitleHandler", "TALFileHandler", "CompressedFileHandler"],
               requires=INV, modifies=[], returns="opt[bool]",
               ensures=["implies(result, self.statresult is not None and stat.S_ISREG(self.statresult[0]))"], **common)
    w.contract(H + "url.py::URLTypeRewriter.canhandlerequest", selfclass=["URLTypeRewriter"],
               requires=INV, modifies=[], returns="bool",
               ensures=["result == (len(self.selector) >= 3 and self.selector[0] == '/' and self.selector[2] == '/')"], **common)
    w.contract(H + "gophermap.py::BuckGophermapHandler.canhandlerequest", selfclass=["BuckGophermapHandler"],
               globals=GROOT,
               requires=INV + VFSREQ + ["self.vfs.config is self.config"], modifies=[MROOT], returns="opt[bool]",
               ensures=["implies(result, self.statresult is not None)",
                        "implies(self.statresult is not None and stat.S_ISDIR(self.statresult[0]), bool(result) == fs_isfile(S.fspath_of(self.config.get('pygopherd', 'root'), self.selector + '/gophermap')))",
                        "implies(self.statresult is not None and stat.S_ISREG(self.statresult[0]), bool(result) == self.selector.endswith('.gophermap'))",
                        "implies(self.statresult is None, not result)"],
               note="C09: a directory is rendered from its gophermap exactly when <directory>/gophermap is a regular file (whatever its size or content), a regular file exactly when its name ends in .gophermap",
               raises={}, props=["C01", "C09", "C05"])
    w.contract(H + "scriptexec.py::ExecHandler.canhandlerequest", selfclass=["ExecHandler"],
               requires=INV, modifies=[], returns="opt[bool]",
               ensures=["implies(result, self.statresult is not None and stat.S_ISREG(self.statresult[0]))"], **common)
    w.contract(H + "mbox.py::MaildirFolderHandler.canhandlerequest", selfclass=["MaildirFolderHandler"],
               globals=GROOT,
               requires=INV + VSTRUCT + VFSREQ + ["self.vfs.config is self.config"], modifies=[MROOT], returns="opt[bool]",
               use_lemmas=VLEMMAS,
               ensures=["implies(result, self.selectorargs == '')"], **common)
    w.contract(H + "mbox.py::MBoxFolderHandler.canhandlerequest", selfclass=["MBoxFolderHandler"],
               globals=GROOT,
               requires=INV + VSTRUCT + VFSREQ + ["self.vfs.config is self.config"], modifies=[MROOT], returns="opt[opaque:match]",
               use_lemmas=VLEMMAS,
               ensures=["implies(result, self.selectorargs == '')"],
               ghost={"open_files": "trace"},
               on_raise={}, **common)
    w.lemma("prefix-secure", ["sel:str", "real:str"],
            hyp=["S.secure(sel)", "sel.startswith(real)"],
            goal=["S.secure(real)"], props=["C01"],
            note="the real part of a virtual selector is a prefix of a filtered selector")
    w.contract(H + "mbox.py::MessageHandler.canhandlerequest", selfclass=["MBoxMessageHandler", "MaildirMessageHandler"],
               requires=INV, modifies=["self.message_num"], returns="bool",
               ensures=["implies(result, self.message_num >= 1)", "implies(result, type(self.vfs) is VFS_Real)"],
               note="no file-system access; never raises, whatever follows the message flag (digits int() refuses, non-ASCII digits): the handler chain goes on to the next handler",
               raises={}, props=["C01", "C03", "C05"])
    w.fields("PYGHandler", module="opaque:module", pygclass="opaque:class", pygobject="opaque:pygobject")
    w.contract(H + "pyg.py::PYGHandler.canhandlerequest", selfclass=["PYGHandler"],
               requires=INV + VSTRUCT, modifies=["self.module", "self.pygclass", "self.pygobject"], returns="bool", assumed=True,
               note="imports and runs content (a .pyg file) via importlib: outside the subset; the path handed to SourceFileLoader is getfspath() of the real selector (syntactic obligation C01.ast.pyg-path)",
               raises={}, props=["C01"])
    w.contract(H + "ZIP.py::ZIPHandler.canhandlerequest", selfclass=["ZIPHandler"],
               requires=INV, modifies=["self.basename", "self.appendage"], returns="bool", assumed=True,
               note="verified under C16 (loop over os.path.split heads)",
               raises={}, props=["C01"])
    w.contract(H + "html.py::HTMLFileTitleHandler.canhandlerequest", selfclass=["HTMLFileTitleHandler"],
               requires=INV, modifies=[], returns="bool",
               ensures=["implies(result, self.statresult is not None)"], **common)
    w.contract(H + "tal.py::TALFileHandler.canhandlerequest", selfclass=["TALFileHandler"],
               requires=INV, modifies=["self.talbasename", "self.allowpythonpath"], returns="bool",
               ensures=["implies(result, self.statresult is not None and self.selector.endswith('.tal'))"], **common)
    w.contract(H + "file.py::CompressedFileHandler.canhandlerequest", selfclass=["CompressedFileHandler"],
               requires=INV, modifies=["self.decompressors", "self.decompresspatt", "self.entry"], returns="bool", assumed=True,
               note="calls getentry() (populatefromfs); verified under C04",
               raises={}, props=["C01"])
    # Virtual.__init__: real/argument split
    w.contract(H + "virtual.py::Virtual.__init__",
               selfclass=[c for c in w.repo.subclasses("Virtual")],
               params={"selector": "str", "searchrequest": "opt[str]", "protocol": "obj:BaseGopherProtocol", "config": "obj:Config",
                       "statresult": "opt[stat]", "vfs": "opt[obj:VFS_Real]"},
               globals=GROOT,
               requires=["selector.startswith('/')", "S.abs_root(config.get('pygopherd', 'root'))", "implies(vfs is not None, vfs.config is config)",
                         "G.rootpath is None or G.rootpath == '' or G.rootpath == config.get('pygopherd', 'root')"],
               modifies=["self.*", MROOT],
               raises={},
               ensures=["self.selector == selector"] + VSTRUCT + [
                   "self.selector == self.selectorreal + self.selector[len(self.selectorreal):len(self.selectorreal) + 1] + self.selectorargs",
                   "implies('?' not in selector and '|' not in selector, self.selectorreal == selector and self.selectorargs == '')"],
               props=["C01", "C03", "C05"])


def register_ast(w):
    FS_NAMES = {"open", "stat", "listdir", "unlink", "isdir", "isfile", "exists", "copyto", "mbox", "Maildir", "run", "Popen",
                "SourceFileLoader", "is_zipfile", "ZipFile", "system", "popen", "exec_module", "spec_from_file_location"}

    def filter_overrides(world):
        """Only HTMLURLHandler may relax the selector filter, and nobody overrides isrequestforme."""
        bad = []
        for c in world.repo.subclasses("BaseHandler"):
            ci = world.repo.cls(c)
            if "isrequestsecure" in ci.methods and c not in ("BaseHandler", "HTMLURLHandler"):
                bad.append("%s overrides isrequestsecure (%s)" % (c, ci.relfile))
            if "isrequestforme" in ci.methods and c != "BaseHandler":
                bad.append("%s overrides isrequestforme (%s)" % (c, ci.relfile))
        return (not bad, bad or "isrequestsecure is overridden only by HTMLURLHandler; isrequestforme by nobody")

    w.astcheck("C01.ast.filter-overrides", ["C01"], filter_overrides)

    def url_handler_no_fs(world):
        """HTMLURLHandler (the one class whose filter admits '..' and '//') never touches the file system:
        no call of a file-system entry point and no use of self.vfs in its class body."""
        bad = []
        ci = world.repo.cls("HTMLURLHandler")
        for n in ast.walk(ci.node):
            if isinstance(n, ast.Attribute) and n.attr == "vfs":
                bad.append("HTMLURLHandler uses .vfs at line %d" % n.lineno)
            if isinstance(n, ast.Call):
                f = n.func
                name = f.attr if isinstance(f, ast.Attribute) else (f.id if isinstance(f, ast.Name) else None)
                if name in FS_NAMES or name in ("getfspath", "populatefromfs", "populatefromvfs", "getHandler"):
                    bad.append("HTMLURLHandler calls %s at line %d" % (name, n.lineno))
        return (not bad, bad or "no file-system entry point, vfs use or handler re-entry in HTMLURLHandler")

    w.astcheck("C01.ast.url-handler-no-fs", ["C01", "C13"], url_handler_no_fs)

    def statresult_after_filter(world):
        """The result of the pre-filter stat is read only inside canhandlerequest/getentry/prepare/write
        bodies of handlers (reached through isrequestsecure() and ...), never in getHandler itself or in a
        handler constructor beyond storing it."""
        bad = []
        fi = world.repo.get("pygopherd/handlers/HandlerMultiplexer.py::getHandler")
        for n in ast.walk(fi.node):
            if isinstance(n, (ast.Subscript, ast.Attribute)) and isinstance(getattr(n, "value", None), ast.Name) and n.value.id == "statresult":
                bad.append("getHandler inspects statresult at line %d" % n.lineno)
            if isinstance(n, (ast.If, ast.While)) and any(isinstance(x, ast.Name) and x.id == "statresult" for x in ast.walk(n.test)):
                bad.append("getHandler branches on statresult at line %d" % n.lineno)
        for q in ("pygopherd/handlers/base.py::BaseHandler.__init__", "pygopherd/handlers/virtual.py::Virtual.__init__"):
            fi = world.repo.get(q)
            for n in ast.walk(fi.node):
                if isinstance(n, ast.Subscript) and isinstance(n.value, ast.Attribute) and n.value.attr == "statresult":
                    bad.append("%s inspects statresult at line %d" % (q, n.lineno))
                if isinstance(n, ast.If) and any(isinstance(x, ast.Attribute) and x.attr == "statresult" for x in ast.walk(n.test)):
                    bad.append("%s branches on statresult at line %d" % (q, n.lineno))
        irf = world.repo.get("pygopherd/handlers/base.py::BaseHandler.isrequestforme")
        return (not bad, bad or "statresult is only stored before the filter has run")

    w.astcheck("C01.ast.statresult-only-after-filter", ["C01"], statresult_after_filter)

    def sinks_under_contract(world):
        """Every function in pygopherd/handlers/*.py and gopherentry.py that calls a file-system / process
        entry point is under a C01 contract (verified or explicitly assumed): a sink added by a change in a
        function without contract is reported here instead of going unnoticed."""
        bad = []
        covered = {q for (q, _), c in world.contracts.items() if "C01" in c.props}
        for rf, (src, tree) in world.repo.files.items():
            if not (rf.startswith("pygopherd/handlers/") or rf.startswith("pygopherd/protocols/") or rf == "pygopherd/gopherentry.py"):
                continue
            for cls in [n for n in tree.body if isinstance(n, ast.ClassDef)] + [None]:
                funcs = [n for n in (cls.body if cls else tree.body) if isinstance(n, ast.FunctionDef)]
                for fn in funcs:
                    q = "%s::%s%s" % (rf, (cls.name + ".") if cls else "", fn.name)
                    for n in ast.walk(fn):
                        if isinstance(n, ast.Call):
                            f = n.func
                            name = f.attr if isinstance(f, ast.Attribute) else (f.id if isinstance(f, ast.Name) else None)
                            recv = f.value if isinstance(f, ast.Attribute) else None
                            is_sink = False
                            if name in FS_NAMES:
                                # calls on the vfs / os / zipfile / subprocess / builtins
                                if recv is None:
                                    is_sink = name in ("open", "mbox", "Maildir", "SourceFileLoader")
                                else:
                                    rs = ast.unparse(recv)
                                    is_sink = rs.endswith("vfs") or rs in ("os", "os.path", "zipfile", "subprocess", "shelve", "self.chain", "self.zip", "importlib.util", "spec.loader") or (rs == "self" and cls is not None and cls.name.startswith("VFS"))
                            if name == "open" and recv is not None and ast.unparse(recv) == "shelve":
                                is_sink = True
                            if is_sink and q not in covered:
                                bad.append("%s calls %s at line %d and has no C01 contract" % (q, ast.unparse(f), n.lineno))
        return (not bad, sorted(set(bad)) or "every function containing a file-system/process sink is under a C01 contract")

    def protocols_no_fs(world):
        """Protocol classes and the connection handler never touch the file system themselves: every access goes
        through the handler that getHandler selected (and that therefore passed the filter).  A stat/open/listdir in
        protocols/*.py or server.py would let an unfiltered selector influence the response."""
        bad = []
        names = {"stat", "lstat", "open", "listdir", "scandir", "isfile", "isdir", "exists", "unlink", "copyto", "getfspath", "walk", "glob", "readlink", "access"}
        for q, fi in world.repo.funcs.items():
            if not (q.startswith("pygopherd/protocols/") or q.startswith("pygopherd/server.py")) or "Multiplexer" in q:
                continue
            for n in ast.walk(fi.node):
                if isinstance(n, ast.Call):
                    f = n.func
                    nm = f.attr if isinstance(f, ast.Attribute) else (f.id if isinstance(f, ast.Name) else None)
                    if nm in names or nm in ("VFS_Real", "VFSZip"):
                        if isinstance(f, ast.Attribute) and ast.unparse(f.value).endswith("handler"):
                            continue  # a method of the selected handler object (handler.isdir(), handler.write(...))
                        bad.append("%s calls %s at line %d" % (q, nm, n.lineno))
        return (not bad, bad or "no file-system entry point is called from protocols/*.py or server.py")

    w.astcheck("C01.ast.protocols-no-fs", ["C01"], protocols_no_fs)

    w.astcheck("C01.ast.sinks-under-contract", ["C01"], sinks_under_contract)


# =====================================================================================================
# Layer 4: handler code that reaches the file system (sink obligations arise at the vfs.* call sites
# through the preconditions of the VFS_Real contracts, and at the external sinks modelled here)
# =====================================================================================================
def _path_sink(name, returns=None):
    base = _os_sink(name, returns=returns)
    return base


def _opaque_ret(tag):
    def r(eng, p):
        return VOpaque(tag, z3.Const(eng.fresh_name(tag), U))
    return r


X.EXT_IMPL["mailbox.mbox"] = _os_sink("mailbox.mbox", returns=_opaque_ret("mailbox"))
X.EXT_IMPL["mailbox.Maildir"] = _os_sink("mailbox.Maildir", returns=_opaque_ret("mailbox"))
X.CLASSES["mailbox.mbox"] = "mailbox.mbox"
X.CLASSES["mailbox.Maildir"] = "mailbox.Maildir"


def _construct_mailbox(eng, world, clsname, args, kwargs, node, fr):
    return X.EXT_IMPL[clsname](eng, world, args, kwargs, node)


def _subprocess_run(eng, world, args, kwargs, node):
    """subprocess.run([program, ...]): the program path is a sink when it is derived from the request."""
    argv = eng.force(args[0])
    eng.assumptions_used.add("subprocess.run executes argv[0]; the other arguments and the environment are data for the child")
    if isinstance(argv, VList) and argv.concrete() and argv.items:
        prog = eng.force(argv.items[0])
    elif isinstance(argv, VList):
        prog = eng.force(argv.get(0))
    else:
        raise OutOfSubset("subprocess.run argv")
    if not (eng.contract and eng.contract.opts.get("program_from_config")):
        _os_sink("subprocess.run")(eng, world, [prog], {}, node)
    r = VObj("CompletedProcess", name=eng.fresh_name("proc"))
    r.fields["stdout"] = eng.fresh("bytes", "proc_stdout")
    r.fresh_alloc = True
    return r


X.EXT_IMPL["subprocess.run"] = _subprocess_run
X.EXT_IMPL["os.environ.copy"] = lambda eng, world, args, kwargs, node: VDict({}, sym=(eng.fresh_name("environ"), "str"), valty="str")
X.MODULES.add("os.environ")

FSPINV = "self.fspath is None or self.fspath == S.fspath_of(self.config.get('pygopherd', 'root'), self.getselector())"
SELBASE = "self.selectorbase == ('' if self.selector == '/' else self.selector)"
CFGOK = ["self.vfs.config is self.config"]


def register4(w):
    w.fields("DirHandler", cachetime="maybe:int", cachefile="str", cachename="str", fromcache="bool", files="list[str]",
             fileentries="list[obj:GopherEntry]", selectorbase="str")
    w.fields("UMNDirHandler", linkentries="list[obj:LinkEntry]")
    w.fields("BuckGophermapHandler", selectorbase="str", entries="list[obj:GopherEntry]")
    w.fields("WFile", written="bytes")
    common = dict(globals=GROOT, props=["C01"])
    FS = INV + VFSREQ + CFGOK
    for k in ("construct:mailbox.mbox", "construct:mailbox.Maildir"):
        pass
    mailbox_opts = {"construct:mailbox.mbox": _construct_mailbox, "construct:mailbox.Maildir": _construct_mailbox}

    w.contract(HB + "BaseHandler.getfspath", selfclass=[c for c in w.repo.subclasses("BaseHandler")],
               requires=VFSREQ + CFGOK + [FSPINV], modifies=["self.fspath", MROOT], raises={}, returns="str",
               ensures=["result == S.fspath_of(self.config.get('pygopherd', 'root'), self.getselector())", FSPINV],
               note="memoised; class invariant: self.fspath is unset or already equals vfs.getfspath(getselector())",
               **common)
    # the copy loop (shared with C04/C20)
    w.contract(HB + "VFS_Real.copyto",
               params={"name": "str", "fd": "obj:WFile"},
               requires=["G.rootpath is None or G.rootpath == '' or G.rootpath == self.config.get('pygopherd', 'root')",
                         "S.abs_root(self.config.get('pygopherd', 'root'))", "S.safe_sel(name)"],
               modifies=[MROOT, "fd.written"], raises={"OSError": True}, returns=None,
               ghost={"open_files": "trace"},
               setup=_setup_sink_config,
               loops={0: dict(invariant=["0 <= rfile.pos", "rfile.pos <= len(rfile.content)", "fd.written == old(fd.written) + rfile.content[:rfile.pos]",
                                         "len(ghost.open_files) == 1"],
                              decreases="len(rfile.content) - rfile.pos", havoc=["rfile.pos", "fd.written"])},
               ensures=["len(ghost.open_files) == 0",
                        "fd.written == old(fd.written) + fs_content(S.fspath_of(self.config.get('pygopherd', 'root'), name))"],
               on_raise={"OSError": ["len(ghost.open_files) == 0"]},
               canary="fd.written == old(fd.written)",
               globals=GROOT, props=["C01", "C04", "C20"])
    w.contract(H + "file.py::FileHandler.write", selfclass=["FileHandler", "HTMLFileTitleHandler"],
               params={"wfile": "obj:WFile"}, requires=FS, modifies=[MROOT, "wfile.written"], raises={"OSError": True},
               ensures=["wfile.written == old(wfile.written) + fs_content(S.fspath_of(self.config.get('pygopherd', 'root'), self.selector))"],
               globals=GROOT, props=["C01", "C04"])
    w.contract(H + "dir.py::DirHandler.prep_initfiles", selfclass=["DirHandler", "UMNDirHandler"],
               requires=FS + [SELBASE], modifies=["self.files", "self.linkentries", MROOT], raises={"OSError": True},
               loops={0: dict(invariant=["True"], havoc=["self.files", "self.linkentries"])},
               setup=_setup_sink_config, **common)
    w.contract(H + "dir.py::DirHandler.prep_initfiles_canaddfile", selfclass=["DirHandler"],
               params={"ignorepatt": "str", "pattern": "str", "file": "str"}, requires=INV, modifies=[], raises={}, returns="bool",
               **common)
    w.contract(H + "UMN.py::UMNDirHandler.prep_initfiles_canaddfile", selfclass=["UMNDirHandler"],
               params={"ignorepatt": "str", "pattern": "str", "file": "str"},
               requires=FS + [SELBASE, "S.child_name_ok(file)"], modifies=["self.linkentries", MROOT], raises={"OSError": True}, returns="bool",
               use_lemmas=[("suffix-safe", {"s": "self.selector", "n": "file"})],
               **common)
    w.contract(H + "UMN.py::UMNDirHandler.processLinkFile", selfclass=["UMNDirHandler"],
               params={"filename": "str", "capfilepath": "opt[str]"},
               requires=FS + ["S.safe_sel(filename)"], modifies=[MROOT], raises={"OSError": True}, returns="list[obj:LinkEntry]",
               assumed=True, note="body (link-file parser loop) verified under C08; for C01 its only file-system access is vfs.open(filename) (C01.ast.processLinkFile-sinks)",
               **common)
    w.contract(H + "dir.py::DirHandler.loadcache", selfclass=["DirHandler", "UMNDirHandler"],
               requires=FS + ["S.child_name_ok(self.config.get('handlers.dir.DirHandler', 'cachefile'))"],
               init={"cachename": "self.selector + '/' + self.config.get('handlers.dir.DirHandler', 'cachefile')"},
               modifies=["self.fromcache", "self.cachetime", "self.cachefile", "self.cachename", "self.fileentries", MROOT],
               raises={"OSError": True, "Exception": True}, returns="bool",
               use_lemmas=[("suffix-safe", {"s": "self.selector", "n": "self.config.get('handlers.dir.DirHandler', 'cachefile')"})],
               ghost={"open_files": "trace"}, setup=_setup_sink_config,
               ensures=["self.cachename == self.selector + '/' + self.config.get('handlers.dir.DirHandler', 'cachefile')"],
               **common)
    w.contract(H + "dir.py::DirHandler.savecache", selfclass=["DirHandler", "UMNDirHandler"],
               requires=FS + ["S.child_name_ok(self.config.get('handlers.dir.DirHandler', 'cachefile'))"],
               init={"cachename": "self.selector + '/' + self.config.get('handlers.dir.DirHandler', 'cachefile')"},
               modifies=[MROOT], raises={"Exception": True},
               use_lemmas=[("suffix-safe", {"s": "self.selector", "n": "self.config.get('handlers.dir.DirHandler', 'cachefile')"})],
               ghost={"open_files": "trace"}, setup=_setup_sink_config,
               **common)
    w.contract(H + "html.py::HTMLFileTitleHandler.getentry", selfclass=["HTMLFileTitleHandler"],
               requires=FS, modifies=["self.entry", MROOT], raises={"OSError": True}, returns="obj:GopherEntry", assumed=True,
               note="html.parser loop: outside the subset; sinks: FileHandler.getentry (populatefromfs) and vfs.open(self.getselector()) (C01.ast.getselector-only)",
               **common)
    w.contract(H + "mbox.py::MBoxFolderHandler.prepare", selfclass=["MBoxFolderHandler"],
               requires=FS + VSTRUCT + [FSPINV], modifies=["self.*", MROOT], raises={"Exception": True},
               use_lemmas=VLEMMAS + [("safe-sel-resolves-under-root", {"s": "self.selectorreal", "root": "self.config.get('pygopherd', 'root')"})],
               setup=_setup_sink_config, opts=dict(mailbox_opts, inline_callees=[]),
               **common)
    w.contract(H + "mbox.py::MaildirFolderHandler.prepare", selfclass=["MaildirFolderHandler"],
               requires=FS + VSTRUCT + [FSPINV], modifies=["self.*", MROOT], raises={"Exception": True},
               use_lemmas=VLEMMAS + [("safe-sel-resolves-under-root", {"s": "self.selectorreal", "root": "self.config.get('pygopherd', 'root')"})],
               setup=_setup_sink_config, opts=mailbox_opts,
               **common)
    w.contract(H + "mbox.py::FolderHandler.prepare", selfclass=["MBoxFolderHandler", "MaildirFolderHandler"],
               requires=INV, modifies=["self.entries"], raises={"Exception": True}, assumed=True,
               note="iterates the mailbox object (mailbox module): outside the subset; no path is built here (C01.ast.sinks-under-contract)",
               **common)
    w.contract(H + "mbox.py::MBoxMessageHandler.openmailbox", selfclass=["MBoxMessageHandler"],
               requires=FS + VSTRUCT + [FSPINV], modifies=["self.fspath", MROOT], raises={"Exception": True}, returns="opaque:mailbox",
               use_lemmas=VLEMMAS + [("safe-sel-resolves-under-root", {"s": "self.selectorreal", "root": "self.config.get('pygopherd', 'root')"})],
               setup=_setup_sink_config, opts=mailbox_opts,
               **common)
    w.contract(H + "mbox.py::MaildirMessageHandler.openmailbox", selfclass=["MaildirMessageHandler"],
               requires=FS + VSTRUCT + [FSPINV], modifies=["self.fspath", MROOT], raises={"Exception": True}, returns="opaque:mailbox",
               use_lemmas=VLEMMAS + [("safe-sel-resolves-under-root", {"s": "self.selectorreal", "root": "self.config.get('pygopherd', 'root')"})],
               setup=_setup_sink_config, opts=mailbox_opts,
               **common)
    w.contract(H + "scriptexec.py::ExecHandler.write", selfclass=["ExecHandler"],
               params={"wfile": "obj:WFile"},
               requires=FS + VSTRUCT + [FSPINV], modifies=["self.fspath", "wfile.written", MROOT], raises={"Exception": True},
               use_lemmas=VLEMMAS + [("safe-sel-resolves-under-root", {"s": "self.selectorreal", "root": "self.config.get('pygopherd', 'root')"})],
               setup=_setup_sink_config,
               **common)


def register5(w):
    common = dict(globals=GROOT, props=["C01"])
    FS = INV + VFSREQ + CFGOK
    GE = "pygopherd/gopherentry.py::GopherEntry."
    w.contract(GE + "populatefromfs",
               params={"fspath": "str", "statval": "opt[stat]", "vfs": "opt[obj:VFS_Real]"},
               requires=["S.safe_sel(fspath)"], modifies=["self.*", MROOT], raises={}, assumed=True,
               note="verified under C04/C15 (MIME and sidecar posts); for C01: its file-system accesses are vfs.stat(fspath) and, through handleeaext, vfs.open(fspath [+ '/'] + ext) for the configured sidecar extensions (lemma extension-safe; the extensions are configuration)",
               **common)
    w.contract(GE + "populatefromvfs",
               params={"vfs": "obj:VFS_Real", "selector": "str"},
               requires=["S.safe_sel(selector)"], modifies=["self.*", MROOT], raises={"OSError": True}, assumed=True,
               note="stat + populatefromfs on the same selector", **common)
    w.contract(GE + "handleeaext",
               params={"selector": "str", "vfs": "opt[obj:VFS_Real]"},
               requires=["S.safe_sel(selector)"], modifies=["self.ea", MROOT], raises={}, assumed=True,
               note="loop over the configured extension map (eval of configuration): opens selector + extension only (lemma extension-safe)", **common)
    w.contract(H + "file.py::CompressedFileHandler.write", selfclass=["CompressedFileHandler"],
               params={"wfile": "obj:WFile"},
               requires=FS + ["hasattr(self, 'decompressors')", "self.entry is not None"], modifies=[MROOT, "wfile.written"], raises={"Exception": True},
               ghost={"open_files": "trace"}, setup=_setup_sink_config,
               opts={"program_from_config": True},
               note="the program run is decompressors[realencoding]: configuration, not request data; the file opened is getselector()",
               **common)
    w.fields("GopherEntry", realencoding="opt[str]")
    w.contract(H + "file.py::FileHandler.getentry", selfclass=["FileHandler", "HTMLFileTitleHandler"],
               requires=FS, modifies=["self.entry", MROOT], raises={}, returns="obj:GopherEntry",
               ensures=["self.entry is result"],
               use_lemmas=[("no-climb", {"s": "self.selector", "root": "self.config.get('pygopherd', 'root')"})],
               **common)
    w.contract(H + "dir.py::DirHandler.getentry", selfclass=["DirHandler", "UMNDirHandler"],
               requires=FS, modifies=["self.entry", MROOT], raises={}, returns="obj:GopherEntry",
               ensures=["self.entry is result"],
               use_lemmas=[("no-climb", {"s": "self.selector", "root": "self.config.get('pygopherd', 'root')"})],
               **common)
    w.contract(H + "gophermap.py::BuckGophermapHandler.prepare", selfclass=["BuckGophermapHandler"],
               requires=FS, modifies=["self.*", MROOT], raises={"Exception": True}, assumed=True,
               note="verified under C09; request-derived sink: vfs.open(getselector() | selectorbase + '/gophermap') (lemma suffix-safe); the vfs.exists/populatefromvfs arguments are selectors written in the gophermap, i.e. served content, outside the property's quantifier (DESIGN C01.7)",
               **common)
    w.contract(H + "tal.py::TALFileHandler.write", selfclass=["TALFileHandler"],
               params={"wfile": "obj:WFile"},
               requires=FS, modifies=["wfile.written", MROOT], raises={"Exception": True}, assumed=True,
               note="opens getselector(); everything else is template expansion (simpleTAL, C17/C18); TALLoader paths come from template expressions = served content",
               **common)
    for m in ("__getattr__", "getchildrennames"):
        w.contract(H + "tal.py::TALLoader." + m, assumed=True, raises={"Exception": True},
                   note="reached only from template expressions (served content): outside the property's quantifier", props=["C01"])
    for m, note in (("__init__", "opens the archive through the parent VFS: chain.open(zipfilename) with zipfilename a prefix of a filtered selector (ZIPHandler.canhandlerequest)"),
                    ("init_cache", "stats archive and cache file through the parent VFS, opens the cache shelf at chain.getfspath(dirname(zipfilename)/.cache.pygopherd.zip3.<name>)"),
                    ("save_cache", "writes the cache shelf next to the archive"),
                    ("open", "zip.open(member): in-memory archive access, no OS path")):
        w.contract(H + "ZIP.py::VFSZip." + m, assumed=True, raises={"Exception": True},
                   note=note + " [contracted under C16]", props=["C01"])
