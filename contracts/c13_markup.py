"""C13 - generated HTML, WML and Gopher+ blocks cannot be subverted by data.

The discipline is a typing discipline on strings: every piece of a generated page that is not a literal of
the program is html.escape(...) output, a percent-encoded URL, a number or trusted configuration.  It is
expressed by the structural obligation markup_safe(<string>), decided on the symbolic term the function
builds (all paths, all inputs)."""
import z3
from pyvc.values import *  # noqa
from pyvc import externals as X

P = "pygopherd/protocols/"
HTTP = ["HTTPProtocol", "HTTPSProtocol"]
WAP = ["WAPProtocol"]
ICONS = {"cfgeval:protocols.http.HTTPProtocol/iconmapping": "dict[str,str]"}


def register(w):
    w.always_standin["C13"] = [("pygopherd/handlers/html.py::HTMLFileTitleHandler.getentry", "the title scan runs html.parser over served content (outside the subset): what becomes the entry name is checked on real files"),
                               ("pygopherd/handlers/mbox.py::MessageHandler.getentry", "mail subjects come through the mailbox and email modules (assumed interface)"),
                               ("pygopherd/protocols/wap.py::WAPProtocol.handlerwrite", "names in WML attribute positions"),
                               ("pygopherd/gopherentry.py::GopherEntry.handleeaext", "long sidecar lines in Gopher+ blocks")]
    w.fields("BaseGopherProtocol", entry="obj:GopherEntry")
    def replace(q, classes, **kw):
        for cls in classes:
            w.contracts.pop((q, cls), None)
        return w.contract(q, selfclass=classes, **kw)

    E = {"entry": "obj:GopherEntry"}
    replace(P + "http.py::HTTPProtocol.getimgtag", HTTP + WAP, params=E, modifies=[], raises={}, returns="str",
            ensures=["markup_safe(result)"], props=["C13"],
            note="icon names come from the configured icon map")
    replace(P + "http.py::HTTPProtocol.getrenderstr", HTTP, params=dict(E, url="str"), modifies=[], raises={}, returns="str",
            ensures=["markup_safe(result)",
                     "implies(entry.name is not None, ('<TT>' + html.escape(entry.name) + '</TT>') in result)",
                     "implies(entry.type != 'i' and entry.type != '7', ('<A HREF=\"' + html.escape(url) + '\">') in result)"],
            props=["C13", "C03", "C04", "C20", "C06", "C05"],
            note="for EVERY url string (also one taken from served content): the row's markup is literals + escaped data; C06: the row shows the entry's display name as it is (the empty name of a blank informational line included) and links every item")
    replace(P + "http.py::HTTPProtocol.renderobjinfo", HTTP, params=E,
            modifies=[], raises={}, returns="str",
            ensures=["markup_safe(result)"], props=["C13", "C03", "C04", "C20", "C05"])
    replace(P + "http.py::HTTPProtocol.renderobjinfo", WAP, params=E, requires=["self.accesskeyidx >= 0"], label="WAPProtocol::HTTPProtocol.renderobjinfo",
            modifies=["self.accesskeyidx", "self.postfieldidx"], raises={}, returns="str",
            ensures=["markup_safe(result)", "self.accesskeyidx >= old(self.accesskeyidx)"], props=["C13", "C03", "C04", "C20", "C05"])
    replace(P + "http.py::HTTPProtocol.renderdirstart", HTTP, params=E, modifies=[], raises={}, returns="str",
            ensures=["markup_safe(result)"], props=["C13", "C03", "C04", "C20"])
    replace(P + "http.py::HTTPProtocol.renderdirend", HTTP + WAP[:0], params=E, modifies=[], raises={}, returns="str",
            ensures=["markup_safe(result)"], props=["C13", "C03", "C04", "C20"])
    c = w.contracts[(P + "http.py::HTTPProtocol.filenotfound", "HTTPProtocol")]
    c.ensures_internal = ["markup_safe(self.wfile.delta)"]
    c.init = dict(c.init, **{"self.wfile.delta": "b''"})
    c.props.add("C13")
    replace(P + "wap.py::WAPProtocol.getrenderstr", WAP, params=dict(E, url="str"), requires=["self.accesskeyidx >= 0"],
            modifies=["self.accesskeyidx", "self.postfieldidx"], raises={}, returns="str",
            ensures=["markup_safe(result)", "self.accesskeyidx >= old(self.accesskeyidx)",
                     "implies(url.startswith('/') and entry.type != 'i' and entry.type != '7', ('href=\"' + html.escape(self.waptop + url) + '\">') in result)",
                     "implies(not url.startswith('/') and entry.type != 'i' and entry.type != '7', ('href=\"' + html.escape(url) + '\">') in result)"],
            props=["C13", "C03", "C04", "C20", "C05", "C06"],
            note="C05: EVERY local link (path starting with '/') is advertised under the WAP prefix that canhandlerequest strips again, whatever the name looks like")
    replace(P + "wap.py::WAPProtocol.renderdirstart", WAP, params=E, modifies=["self.accesskeyidx", "self.postfieldidx"], raises={}, returns="str",
            ensures=["markup_safe(result)", "self.accesskeyidx == 0", "self.postfieldidx == 0"], props=["C13", "C03", "C04", "C20"])
    # the shared directory writer keeps the WAP access-key counter non-negative
    wd = w.contracts[(P + "base.py::BaseGopherProtocol.writedir", "WAPProtocol")]
    import copy as _copy
    wd2 = _copy.copy(wd)
    wd2.loops = {0: dict(invariant=list(wd.loops[0]["invariant"]) + ["self.accesskeyidx >= 0"], havoc=list(wd.loops[0]["havoc"]))}
    wd2.label = "WAPProtocol::BaseGopherProtocol.writedir"
    w.contracts[(P + "base.py::BaseGopherProtocol.writedir", "WAPProtocol")] = wd2
    replace(P + "wap.py::WAPProtocol.renderdirend", WAP, params=E, modifies=[], raises={}, returns="str",
            ensures=["markup_safe(result)"], props=["C13", "C03", "C04", "C20"])
    register_wap(w)
    w.contract("pygopherd/gopherentry.py::GopherEntry.geturl", params={"defaulthost": "str", "defaultport": "int"}, modifies=[], raises={}, returns="str",
               ensures=["implies(not S.url_shape(self.selector), result == 'gopher://' + (defaulthost if self.host is None else self.host) + ':' + str(defaultport if self.port is None else self.port) + '/' + urllib.parse.quote(str(self.type) + self.selector, errors='surrogateescape'))"],
               note="remote entries become gopher:// URLs, whatever bytes the selector carries (never raises); the host part is content and is NOT markup-safe by itself (callers escape the URL)",
               props=["C13", "C06", "C05", "C09", "C03", "C15"])
    w.contract("pygopherd/handlers/url.py::HTMLURLHandler.write", selfclass=["HTMLURLHandler"], params={"wfile": "obj:WFile"},
               requires=["S.url_shape(self.selector)"],
               modifies=["wfile.written"], raises={"OSError": True},
               init={"wfile.delta": "b''"},
               ensures_internal=["markup_safe(wfile.delta)"],
               note="the redirect page: the URL appears only html.escape()d, in all three places",
               props=["C13", "C01"])


def register_wap(w):
    FAULTOPTS = dict(opts={"wfile_faults": False})
    w.contract(P + "wap.py::WAPProtocol.filenotfound", selfclass=WAP, params={"msg": "str"},
               modifies=["self.wfile.written"], raises={"OSError": True},
               init={"self.wfile.delta": "b''"},
               ensures_internal=["markup_safe(self.wfile.delta)"],
               note="the WML error card: the message appears only html.escape()d", props=["C13", "C03"])
    w.contract(P + "wap.py::WAPProtocol.handlerwrite", selfclass=WAP, params={"wfile": "obj:WFile"},
               requires=["self.handler is not None"],
               modifies=["wfile.written"], raises={"OSError": True},
               init={"wfile.delta": "b''"},
               loops={0: dict(invariant=["markup_safe(wfile.delta)", "fakefile.pos <= len(fakefile.written)", "0 <= fakefile.pos"],
                              havoc=["wfile.delta", "wfile.written", "fakefile.pos"], decreases="len(fakefile.written) - fakefile.pos")},
               ensures_internal=["implies(self.needsconversion != 0, markup_safe(wfile.delta))"],
               note="text-to-WML conversion: every line of the document is html.escape()d; the loop terminates", props=["C13", "C04", "C03"])

    register_mail(w)


def _setup_message(eng, fr):
    """`message`: an email.message.Message whose get() yields a str or an email.header.Header."""
    import z3
    from pyvc.values import VOpaque, VStr, U

    def get(eng2, o, args, kwargs, node):
        if eng2.branch_fresh("subject_is_header"):
            h = VOpaque("Header", z3.Const(eng2.fresh_name("subject_header"), U))
            h.attrs["typename"] = None
            return h
        return VStr(z3.String(eng2.fresh_name("subject")))

    m = VOpaque("message", z3.Const(eng.fresh_name("message"), U))
    m.attrs["methods"] = {"get": get}
    fr.locals["message"] = m


def register_mail(w):
    H = "pygopherd/handlers/"
    w.contract(H + "mbox.py::MessageHandler.getmessage", selfclass=["MBoxMessageHandler", "MaildirMessageHandler"], modifies=["self.message"], raises={"Exception": True},
               returns="opaque:message", assumed=True, props=["C13"], note="reads the mailbox (mailbox module): external")
    w.contract(H + "mbox.py::MessageHandler.getentry", selfclass=["MBoxMessageHandler", "MaildirMessageHandler"],
               params={"message": "opaque:message"}, setup=_setup_message,
               requires=["self.entry is None"], modifies=["self.entry"], raises={}, returns="obj:GopherEntry",
               ensures=["result is self.entry", "result.name is not None and '\\r' not in result.name and '\\n' not in result.name and '\\t' not in result.name",
                        "result.type == '0'", "result.selector == self.selector"],
               props=["C13", "C15"],
               note="a mail subject (content) becomes a menu entry name only after every run of white space - including CR, LF and TAB of folded or hostile "
                    "headers - is collapsed to one blank: it can never break a menu line or start a Gopher+ block header")
