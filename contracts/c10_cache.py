"""C10 / C11 / C12 - the directory cache and per-entry containment (dir.py, UMN.py).

loadcache/savecache/prep_initfiles are first put under contract in c01_paths.py (sink obligations); here
their behavioural postconditions are added: the freshness test, 'a hit never writes', 'any cache content is
harmless' (raises nothing for EVERY byte content of the cache file) and 'one unservable child does not
take down the directory'."""
import ast
import z3
from pyvc.values import *  # noqa
from pyvc import externals as X

H = "pygopherd/handlers/"
DIRS = ["DirHandler", "UMNDirHandler"]
GROOT = {"pygopherd/handlers/base.py:rootpath": "opt[str]"}
MROOT = "g:pygopherd/handlers/base.py:rootpath"
CACHEFILE = "self.config.get('handlers.dir.DirHandler', 'cachefile')"
CACHENAME = "self.selector + '/' + " + CACHEFILE
CT = "self.config.getint('handlers.dir.DirHandler', 'cachetime')"


def _setup(eng, fr):
    eng.ghost["sink_config"] = eng.getattr(fr.locals["self"], "config")
    eng.ghost["now"] = VReal(z3.Real(eng.fresh_name("now")))
    eng.ghost["opened"] = VList([])
    eng.ghost["merged"] = VInt(0)
    eng.ghost["cache_mtime"] = VReal(z3.Real(eng.fresh_name("cache_mtime_unread")))


def register(w):
    w.always_standin["C10"] = [("pygopherd/handlers/dir.py::DirHandler.prepare", "cache transparency across requests (what one request leaves in the cache file for the next) is a property of histories, not of one call")]
    for cls in DIRS:
        lc = w.contracts[(H + "dir.py::DirHandler.loadcache", cls)]
    lc = w.contracts[(H + "dir.py::DirHandler.loadcache", "DirHandler")]
    lc.raises = {}
    lc.requires = lc.requires + ["implies(hasattr(self, 'cachetime'), self.cachetime == %s)" % CT]
    lc.setup = _setup
    lc.ghost = dict(lc.ghost, now="real", opened="trace")
    lc.at = {"after:statval = self.vfs.stat(self.cachename)": [("ghost", "cache_mtime", "statval[8]")]}
    lc.ensures = lc.ensures + [
        "result == self.fromcache",
        "self.cachetime == %s" % CT,
        "len(ghost.open_files) == 0",
    ]
    lc.ensures_internal = ["implies(result, ghost.now - ghost.cache_mtime < %s)" % CT,
                           "implies(%s <= 0 and ghost.cache_mtime <= ghost.now, not result)" % CT]
    lc.props.update(["C10", "C11", "C03"])
    lc.note = ("C11: raises nothing for EVERY content of the cache file (pickle.load is modelled as raising on any stream that is not a "
               "complete pickle); C10: a hit implies now - mtime(cache) < cachetime, and the function only reads (vfs.stat, vfs.open 'rb')")
    lc.canary = "result == False"
    sc = w.contracts[(H + "dir.py::DirHandler.savecache", "DirHandler")]
    sc.raises = {}
    sc.ensures = sc.ensures + ["implies(old(self.fromcache), len(ghost.opened_paths) == 0)", "len(ghost.open_files) == 0"]
    sc.ghost = dict(sc.ghost, opened_paths="trace")
    sc.props.update(["C10", "C11", "C03"])
    sc.note = "C10: serving from the cache never rewrites (and so never refreshes the age of) the cache file"
    # record every vfs.open call (ghost) so that 'no write on a hit' is a postcondition
    for key in [k for k in w.contracts if k[0] == "pygopherd/handlers/base.py::VFS_Real.open"]:
        c = w.contracts[key]
        if "ghost.opened_paths" not in (c.modifies or []):
            c.modifies = list(c.modifies) + ["ghost.opened_paths"]
            c.ensures_assumed = c.ensures_assumed + ["ghost.opened_paths == old(ghost.opened_paths) + [selector]"]
            c.on_raise.setdefault("*", []).append("True")
            c.ghost = dict(c.ghost, opened_paths="trace")

    # ---- C12: one unservable child never takes down its directory -----------------------------------------
    FS = ["S.secure(self.selector)", "self.selector.startswith('/')",
          "G.rootpath is None or G.rootpath == '' or G.rootpath == self.config.get('pygopherd', 'root')",
          "S.abs_root(self.config.get('pygopherd', 'root'))", "self.vfs.config is self.config",
          "self.selectorbase == ('' if self.selector == '/' else self.selector)"]
    w.fields("AnyHandler", entryobj="ghost:obj:GopherEntry")
    w.contract("iface::AnyHandler.getentry", selfclass=["<child>"], label="AnyHandler.getentry[child]",
               modifies=[], raises={"FileNotFound": True, "OSError": True}, returns="obj:GopherEntry", assumed=True,
               note="interface (as used by prep_entries on a child)", props=["C12", "C07"]) if False else None
    w.contract(H + "dir.py::DirHandler.prep_entriesappend", selfclass=["DirHandler"],
               params={"file": "str", "handler": "obj:AnyHandler", "fileentry": "obj:GopherEntry"},
               modifies=["self.fileentries"], raises={},
               ensures=["len(self.fileentries) == len(old(self.fileentries)) + 1", "self.fileentries[len(self.fileentries) - 1] is fileentry"],
               inline=True, props=["C12", "C07", "C08"])
    w.contract(H + "UMN.py::UMNDirHandler.prep_entriesappend", selfclass=["UMNDirHandler"],
               params={"file": "str", "handler": "obj:AnyHandler", "fileentry": "obj:GopherEntry"},
               globals=dict(GROOT, extstrip="opt[str]"),
               requires=FS + ["S.child_name_ok(file)"],
               modifies=["self.fileentries", "fileentry.*", "g:extstrip", MROOT], raises={},
               ensures=["len(self.fileentries) <= len(old(self.fileentries)) + 1", "len(self.fileentries) >= len(old(self.fileentries))",
                        "implies(len(self.fileentries) == len(old(self.fileentries)) + 1, self.fileentries[len(self.fileentries) - 1] is fileentry)"],
               ghost={"open_files": "trace", "opened_paths": "trace"},
               note="appends at most the entry it was given (after the extension rule and the .cap merge), raises nothing: a missing or unreadable .cap file is the normal case",
               props=["C12", "C07", "C08"])
    w.contract(H + "dir.py::DirHandler.prep_entries", selfclass=DIRS, globals=dict(GROOT, **{"pygopherd/handlers/HandlerMultiplexer.py:handlers": "opt[list[class:AnyHandler]]"}),
               requires=FS + ["self.searchrequest is None or True"],
               modifies=["self.fileentries", MROOT, "g:pygopherd/handlers/HandlerMultiplexer.py:handlers"], raises={},
               ensures=["len(self.fileentries) <= len(self.files)"],
               loops={0: dict(invariant=["len(self.fileentries) <= _k", "self.selectorbase == ('' if self.selector == '/' else self.selector)"],
                              havoc=["self.fileentries"])},
               ghost={"open_files": "trace", "opened_paths": "trace"},
               opts={"assume_requires": ["S.child_name_ok(file)"],
                     "assume_requires_why": "file is an element of self.files, which prep_initfiles fills from vfs.listdir (VFS_Real.listdir.result_elem: every enumerated name is a child name); element predicates of list-valued fields are not carried by the engine"},
               note="C12: no failure of a single child (getHandler raising FileNotFound - failed stat, rejected name - or getentry failing) leaves the loop; C07: at most one entry per name",
               props=["C12", "C07", "C03"])
    register2(w)


def _cmp_to_key(eng, world, args, kwargs, node):
    return VOpaque("cmpkey", z3.Const(eng.fresh_name("cmpkey"), U), {"fn": args[0]})


X.EXT_IMPL["functools.cmp_to_key"] = _cmp_to_key


def register2(w):
    FS = ["S.secure(self.selector)", "self.selector.startswith('/')",
          "G.rootpath is None or G.rootpath == '' or G.rootpath == self.config.get('pygopherd', 'root')",
          "S.abs_root(self.config.get('pygopherd', 'root'))", "self.vfs.config is self.config",
          "S.child_name_ok(%s)" % CACHEFILE, "implies(hasattr(self, 'cachetime'), self.cachetime == %s)" % CT]
    G2 = dict(GROOT, **{"pygopherd/handlers/HandlerMultiplexer.py:handlers": "opt[list[class:AnyHandler]]"})
    M2 = [MROOT, "g:pygopherd/handlers/HandlerMultiplexer.py:handlers"]
    w.contract(H + "dir.py::DirHandler.prepare", selfclass=["DirHandler"], globals=G2,
               requires=FS, modifies=["self.*"] + M2, raises={"OSError": True}, returns="bool",
               ghost={"now": "real", "open_files": "trace", "opened_paths": "trace"}, setup=_setup,
               ensures=["result == (not self.fromcache)", "self.selector == old(self.selector)",
                        "self.cachename == %s" % CACHENAME,
                        "self.selectorbase == ('' if self.selector == '/' else self.selector)"],
               on_raise={"OSError": ["True"]},
               note="C10/C11: when the cache is not used (stale, absent, damaged) the listing is regenerated from the directory (prep_initfiles, sort, prep_entries); raises only if the directory itself cannot be listed",
               props=["C10", "C11", "C12", "C07"])
    w.contract(H + "dir.py::DirHandler.getdirlist", selfclass=DIRS, globals=GROOT,
               requires=FS[:5] + ["S.child_name_ok(%s)" % CACHEFILE], init={"cachename": CACHENAME},
               modifies=[MROOT], raises={}, returns="list[obj:GopherEntry]",
               ghost={"open_files": "trace", "opened_paths": "trace"}, setup=_setup,
               ensures=["implies(old(self.fromcache), len(ghost.opened_paths) == 0)"],
               note="C10: the cache is written (if at all) before the list is handed to any renderer, and never on a hit",
               props=["C10", "C11"])
    w.contract(H + "UMN.py::UMNDirHandler.prepare", selfclass=["UMNDirHandler"], globals=G2,
               requires=FS, modifies=["self.*"] + M2, raises={"OSError": True},
               ghost={"now": "real", "open_files": "trace", "opened_paths": "trace", "merged": "int"}, setup=_setup,
               at={"after:self.MergeLinkFiles()": [("ghost", "merged", "1")]},
               ensures=["implies(self.fromcache, ghost.merged == 0)", "implies(not self.fromcache, ghost.merged == 1)"],
               note="C10.5: link-file merge and UMN sort run exactly when the listing was regenerated, never on a cached (already merged) list",
               props=["C10", "C07"])
