"""C15 / C05 / C06 - Gopher(+) renderers, the plain menu line, and the render/parse round trips."""
import z3
from pyvc.values import *  # noqa
from pyvc import externals as X

P = "pygopherd/protocols/"
GOPHER = ["GopherProtocol", "SecureGopherProtocol"]
GPLUS = ["GopherPlusProtocol", "SecureGopherPlusProtocol", "URLGopherPlus"]
E = {"entry": "obj:GopherEntry"}
LINE = ("S.gopher_line('0' if entry.type is None else entry.type, entry.selector if entry.name is None else entry.name, entry.selector, "
        "self.server.server_name if entry.host is None else entry.host, self.server.server_port if entry.port is None else entry.port, entry.gopherpsupport != 0)")
NAMED = []


def register(w):
    w.always_standin["C15"] = [("pygopherd/gopherentry.py::GopherEntry.handleeaext", "the lines of a block are the lines of its sidecar file: the relation between readlines() and the file content is not modelled")]
    w.always_standin["C06"] = [("pygopherd/protocols/http.py::HTTPProtocol.renderobjinfo", "equivalence of one entry's link target across five renderers, and of informational lines across protocols and abstract options, is a relation between functions"),
                               ("pygopherd/protocols/gemini.py::GeminiProtocol.handle", "the same search string through every protocol's own mechanism")]
    def replace(q, classes, **kw):
        for cls in classes:
            w.contracts.pop((q, cls), None)
        return w.contract(q, selfclass=classes, **kw)

    replace(P + "rfc1436.py::GopherProtocol.renderobjinfo", GOPHER, params=E, requires=NAMED, modifies=[], raises={}, returns="str",
            ensures=["result == " + LINE],
            canary="result == entry.selector",
            note="the plain menu line: type, display name, TAB selector TAB host TAB port [TAB +] CRLF; host/port default to this server (Host=+ / missing host)",
            props=["C15", "C05", "C06", "C08", "C09", "C03", "C04", "C20"])
    w.contract(P + "rfc1436.py::GopherProtocol.renderobjinfo", selfclass=["<explicit>"], label="GopherProtocol.renderobjinfo[explicit call from Gopher+]",
               params=E, requires=NAMED, modifies=[], raises={}, returns="str", ensures=["result == " + LINE], assumed=True,
               note="same function, reached as GopherProtocol.renderobjinfo(self, entry) from the Gopher+ classes", props=["C15"])
    for cls in GPLUS:
        w.contracts[(P + "rfc1436.py::GopherProtocol.renderobjinfo", cls)] = w.contracts[(P + "rfc1436.py::GopherProtocol.renderobjinfo", "GopherProtocol")]
    w.contract(P + "gopherp.py::GopherPlusProtocol.getinfoblock", selfclass=GPLUS, params=E, requires=NAMED, modifies=[], raises={}, returns="str",
               ensures=["result == '+INFO: ' + " + LINE],
               note="the +INFO line is the item's plain Gopher menu line", props=["C15"])
    w.contract(P + "gopherp.py::GopherPlusProtocol.getviewsblock", selfclass=GPLUS, params=E, modifies=[], raises={}, returns="str",
               ensures=["result == S.gplus_views(entry.mimetype, entry.language, entry.size)"],
               note="+VIEWS names the MIME type (and language) and the size in whole kilobytes", props=["C15"])
    w.contract(P + "gopherp.py::GopherPlusProtocol.getadminblock", selfclass=GPLUS, params=E, modifies=[], raises={}, returns="str",
               ensures=["result.startswith('+ADMIN:\\r\\n Admin: ' + self.config.get('protocols.gopherp.GopherPlusProtocol', 'admin') + '\\r\\n')",
                        "implies(not entry.mtime, result == '+ADMIN:\\r\\n Admin: ' + self.config.get('protocols.gopherp.GopherPlusProtocol', 'admin') + '\\r\\n')"],
               props=["C15"])
    for blk, post in (("+INFO", ["implies('INFO' not in entry.ea, result == '+INFO: ' + " + LINE + ")"]),
                      ("+VIEWS", ["implies('VIEWS' not in entry.ea, result == S.gplus_views(entry.mimetype, entry.language, entry.size))"]),
                      ("+ADMIN", ["implies('ADMIN' not in entry.ea, result.startswith('+ADMIN:\\r\\n Admin: '))"])):
        w.contract(P + "gopherp.py::GopherPlusProtocol.getblock", selfclass=["<%s>" % blk], label="GopherPlusProtocol.getblock[%s]" % blk,
                   params={"block": "const:" + blk, "entry": "obj:GopherEntry"}, requires=NAMED, modifies=[], raises={}, returns="str",
                   ensures=post, opts={"selfclass_real": "GopherPlusProtocol"},
                   note="dispatch of the fixed block names to get<name>block (getattr with a computed name, resolved because the block name is a constant here)",
                   props=["C15"])
    w.contract(P + "gopherp.py::GopherPlusProtocol.getblock", selfclass=["<+ABSTRACT>"], label="GopherPlusProtocol.getblock[extended attribute]",
               params={"block": "const:+ABSTRACT", "entry": "obj:GopherEntry"}, requires=NAMED + ["'ABSTRACT' in entry.ea"], modifies=[], raises={}, returns="str",
               ensures=["result.startswith('+ABSTRACT:\\r\\n')"],
               opts={"selfclass_real": "GopherPlusProtocol",
                     "join_elem": "elem.startswith(' ') and elem.endswith('\\r\\n') and '\\n' not in elem[:-2] and '\\r' not in elem[:-2]"},
               note="C13/C15: every content line of an attribute block starts with a space and is a single line, so it can never pass for a '+NAME:' block header",
               props=["C15", "C13"])

    register2(w)
    # ---- round trips (C05) ------------------------------------------------------------------------------------------
    w.lemma("gopher-selector-roundtrip", ["s:str"],
            hyp=["S.is_norm(s)", "'\\t' not in s", "s == s.strip()"],
            goal=["S.parse_gopher_selector(s + '\\r\\n') == s", "S.parse_gopher_selector(s + '/\\r\\n') == s or s == '/'"],
            props=["C05", "C06"],
            note="a selector rendered verbatim in a menu line and sent back as a request (plain, Gopher+, or with a trailing slash) is parsed to the same selector")
    w.lemma("url-selector-roundtrip", ["s:str"],
            hyp=["S.is_norm(s)"],
            goal=["S.url_roundtrip(s) == s"],
            props=["C05", "C06"],
            note="HTTP/WAP: the percent-encoded link of a normal-form selector decodes (one unquote, split at '?') to that selector")
    w.lemma("norm-idempotent", ["s:str"], hyp=[],
            goal=["S.is_norm(S.norm(s)) or S.norm(s).endswith('//') or s.endswith('//')", "implies(S.is_norm(s), S.norm(s) == s)",
                  "implies(S.is_norm(s) and s != '/', S.norm(s + '/') == s)"],
            props=["C05", "C06"], note="slash normalisation: fixed point on normal forms, and a directory selector with a trailing slash resolves to the same selector")


def register2(w):
    def replace(q, classes, **kw):
        for cls in classes:
            w.contracts.pop((q, cls), None)
        return w.contract(q, selfclass=classes, **kw)
    LOCAL = "entry.host is None and entry.port is None and not S.url_link(entry.selector)"
    REMOTE = "entry.host is not None and entry.host != '' and entry.type is not None and entry.name is not None and not S.url_link(entry.selector) and not S.url_shape(entry.selector)"
    GURL = ("'gopher://' + (self.server.server_name if entry.host is None else entry.host) + ':' + str(70 if entry.port is None else entry.port) + '/' + "
            "urllib.parse.quote(str(entry.type) + entry.selector, errors='surrogateescape')")
    REM = ["implies(%s and entry.type != 'i' and entry.type != '7', result == '=> ' + %s + ' ' + S.gem_desc(entry.name) + '\\n')" % (REMOTE, GURL)]
    replace(P + "gemini.py::GeminiProtocol.renderobjinfo", ["GeminiProtocol"], params=E, modifies=[], raises={}, returns="str",
            ensures=["implies(%s and entry.type != 'i' and entry.type != '7', result == '=> ' + S.gem_link(entry.selector) + ' ' + S.gem_desc(entry.name) + '\\n')" % LOCAL,
                     "implies(%s and entry.type == '7', result == '=> /GEMINI-QUERY' + S.gem_link(entry.selector) + ' ' + S.gem_desc(entry.name) + '\\n')" % LOCAL,
                     "implies(entry.type == 'i', result == S.gem_desc(entry.name) + '\\n')"] + REM,
            note="local links carry the percent-encoded selector; informational lines are the display name; an entry with a host or a port of its own "
                 "is a gopher:// URL to exactly that host and port (C06: equivalent link targets in every protocol)",
            props=["C05", "C06", "C03", "C04", "C20"])
    replace(P + "spartan.py::SpartanProtocol.renderobjinfo", ["SpartanProtocol"], params=E, modifies=[], raises={}, returns="str",
            ensures=["implies(%s and entry.type != 'i' and entry.type != '7', result == '=> ' + S.gem_link(entry.selector) + ' ' + S.gem_desc(entry.name) + '\\n')" % LOCAL,
                     "implies(%s and entry.type == '7', result == '=: ' + S.gem_link(entry.selector) + ' ' + S.gem_desc(entry.name) + '\\n')" % LOCAL,
                     "implies(entry.type == 'i', result == S.gem_desc(entry.name) + '\\n')"] + REM,
            props=["C05", "C06", "C03", "C04", "C20"])
    # decode-once: the selector a URL protocol hands to the handler chain is norm(unquote(path)), nothing else
    for key, clause in (((P + "http.py::HTTPProtocol.handle", "HTTPProtocol"), "self.selector == S.norm(urllib.parse.unquote(self.requestparts[1].split('?')[0], errors='surrogateescape'))"),
                        ((P + "gemini.py::GeminiProtocol.handle", "GeminiProtocol"), "self.selector == S.norm(urllib.parse.unquote(url_parts.path, errors='surrogateescape'))"),
                        ((P + "spartan.py::SpartanProtocol.handle", "SpartanProtocol"), "self.selector == S.norm(urllib.parse.unquote(path, errors='surrogateescape'))")):
        c = w.contracts[key]
        c.at = dict(c.at)
        c.at["after:self.selector = self.slashnormalize(self.selector)"] = list(c.at.get("after:self.selector = self.slashnormalize(self.selector)", [])) + [("assert", clause)]
        c.opts = dict(c.opts, must_hit=list(c.opts.get("must_hit", [])) + ["after:self.selector = self.slashnormalize(self.selector)"])
        c.props.update(["C05", "C06", "C01"] if "http" not in key[0] else ["C05", "C06"])

    register_ea(w)
    register_blocks(w)


def register_ea(w):
    """handleeaext under a verified contract (was assumed): which files the sidecar probe opens."""
    GE = "pygopherd/gopherentry.py::GopherEntry."
    GROOT = {"pygopherd/handlers/base.py:rootpath": "opt[str]"}
    MROOT = "g:pygopherd/handlers/base.py:rootpath"
    ROOT = "self.config.get('pygopherd', 'root')"
    old = w.contracts.pop((GE + "handleeaext", None))
    w.contract(GE + "handleeaext", params={"selector": "str", "vfs": "opt[obj:VFS_Real]"},
               globals=dict(GROOT, eaexts="opt[dict[str,str]]"),
               requires=["S.safe_sel(selector)", "vfs is not None", "vfs.config is self.config",
                         "G.rootpath is None or G.rootpath == '' or G.rootpath == %s" % ROOT, "S.abs_root(%s)" % ROOT],
               modifies=["self.ea", MROOT, "g:eaexts", "ghost.opened_paths", "ghost.open_files"], raises={},
               ghost={"open_files": "trace", "opened_paths": "trace"},
               loops={0: dict(invariant=["len(ghost.open_files) == 0"], havoc=["self.ea", "extension", "blockname"], havoc_ghost=["opened_paths"])},
               at={"after~self.setea(": [("assert", "ghost.opened_paths[len(ghost.opened_paths) - 1] == selector + extension")]},
               ensures=["len(ghost.open_files) == 0"],
               opts={"assume_requires": ["S.safe_sel(selector)"], "assume_requires_why": "the sidecar extensions are configuration ([GopherEntry] eaexts); lemma extension-safe covers well-formed extensions",
                     "must_hit": ["after~self.setea("], "cfgeval:GopherEntry/eaexts": "dict[str,str]"},
               note="a block is filled only from the file <selector><extension> of the configured extension map - no other file is consulted - and the file is closed again",
               props=sorted(set(old.props) | {"C15", "C08", "C01"}))


def register_blocks(w):
    P = "pygopherd/protocols/"
    GPLUS = ["GopherPlusProtocol", "SecureGopherPlusProtocol"]
    E = {"entry": "obj:GopherEntry"}
    w.contract(P + "wap.py::WAPProtocol.adjustmimetype", selfclass=["WAPProtocol"], params={"mimetype": "opt[str]"}, modifies=["self.needsconversion"], raises={}, returns="str",
               ensures=["result == ('text/vnd.wap.wml' if (mimetype is None or mimetype == 'text/plain' or mimetype == 'application/gopher-menu') else mimetype)",
                        "self.needsconversion == (1 if (mimetype is None or mimetype == 'text/plain') else 0)"],
               props=["C04", "C06", "C03"],
               note="WAP: plain text is converted to WML (and only plain text: needsconversion), menus are WML, everything else keeps its type")
    w.contract(P + "gopherp.py::GopherPlusProtocol.getsupportedblocknames", selfclass=GPLUS, params=E, modifies=[], raises={}, returns="list[str]",
               ensures=["len(result) >= 3", "result[0] == '+INFO'", "result[1] == '+ADMIN'", "result[2] == '+VIEWS'", "len(result) == 3 + len(list(entry.ea.keys()))"],
               opts={"dict_keys_symbolic": True}, props=["C15"],
               note="item information = +INFO, +ADMIN, +VIEWS, then one block per extended attribute of the entry")
