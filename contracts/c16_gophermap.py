"""C09 - gophermap files are rendered line for line as documented."""
import z3
from pyvc.values import *  # noqa

H = "pygopherd/handlers/"
GM = H + "gophermap.py::BuckGophermapHandler."
GROOT = {"pygopherd/handlers/base.py:rootpath": "opt[str]"}
MROOT = "g:pygopherd/handlers/base.py:rootpath"
ROOT = "self.config.get('pygopherd', 'root')"
FS = ["S.secure(self.selector)", "self.selector.startswith('/')",
      "G.rootpath is None or G.rootpath == '' or G.rootpath == %s" % ROOT, "S.abs_root(%s)" % ROOT, "self.vfs.config is self.config"]
LAST = "self.entries[len(self.entries) - 1]"
SEL0 = "args[1]"


def register(w):
    w.always_standin["C05"] = [(GM + "prepare", "gophermap links must name the bytes written in the gophermap (non-UTF-8 names included), or following them answers not-found")]
    w.always_standin["C09"] = [(GM + "prepare", "string solvers rarely find counter-models over the strip/split axioms: generated gophermaps vs. the reference reading")]
    w.contracts.pop((GM + "prepare", "BuckGophermapHandler"), None)
    w.contract(GM + "prepare", selfclass=["BuckGophermapHandler"], globals=GROOT,
               requires=FS, modifies=["self.*", MROOT],
               raises={"OSError": True},
               ghost={"open_files": "trace", "opened_paths": "trace"},
               use_lemmas=[("suffix-safe", {"s": "self.selector", "n": "'gophermap'"})],
               loops={0: dict(invariant=["rfile.pos <= len(rfile.content)", "0 <= rfile.pos", "len(ghost.open_files) == 1",
                                         "selectorbase == ('' if self.selector == '/' else self.selector)"],
                              decreases="len(rfile.content) - rfile.pos", havoc=["rfile.pos", "self.entries"])},
               at={"after:self.entries.append(entry)": [
                       ("assert", LAST + " is entry"),
                       ("assert", "entry.type == args[0][0]"),
                       ("assert", "args[0] == ghost.a0 and args[1] == (ghost.a0[1:] if ghost.a1 == '' else ghost.a1) and len(args) == ghost.fields"),
                       ("assert", "implies(args[0][1:] != '', entry.name == args[0][1:])"),
                       ("assert", "implies(not (entry.host is None and entry.port is None), entry.name == args[0][1:])"),
                       ("assert", "entry.selector == (%s if (%s[0:1] == '/' or %s[0:4] == 'URL:') else selectorbase + '/' + %s)" % (SEL0, SEL0, SEL0, SEL0)),
                       ("assert", "implies(len(args) >= 4 and len(args[3]) > 0 and not ascii_digits(args[3]), entry.port is None or entry.port == int(args[3]))"),
                       ("assert", "implies(len(args) >= 3 and len(args[2]) > 0, entry.host == args[2])"),
                       ("assert", "implies(not (len(args) >= 3 and len(args[2]) > 0), entry.host is None)"),
                       ("assert", "implies(len(args) >= 4 and ascii_digits(args[3]), entry.port == int(args[3]))"),
                       ("assert", "implies(not (len(args) >= 4 and len(args[3]) > 0), entry.port is None)")],
                   "after:self.entries.append(gopherentry.getinfoentry(line, self.config))": [
                       ("assert", "%s.type == 'i' and %s.name == ghost.raw.strip() and %s.host == '(NULL)' and %s.port == 0 and %s.selector == 'fake'" % ((LAST,) * 5))],
                   "after:line = rfile.readline().decode(errors='surrogateescape')": [("ghost", "raw", "line")],
                   "after:args = [arg.strip() for arg in line.split('\\t')]": [("ghost", "fields", "len(args)"), ("ghost", "a0", "args[0]"), ("ghost", "a1", "args[1] if len(args) >= 2 else ''"), ("assert", "len(args) >= 2")]},
               ensures=["len(ghost.open_files) == 0"], on_raise={"*": ["len(ghost.open_files) == 0"]},
               opts={"assume_requires": ["S.safe_sel(selector)"], "assume_requires_why": "the selector comes from a gophermap line, i.e. served content, which is outside C01's quantifier (DESIGN 5/C01.7)",
                     "must_hit": ["after:self.entries.append(entry)", "after:self.entries.append(gopherentry.getinfoentry(line, self.config))"]},
               note="one entry per gophermap line, in file order: a line without a TAB is informational text (type i, fake selector, (NULL) host); otherwise the first character "
                    "is the type and the rest of the first field the description, a missing selector defaults to the description, a relative selector is resolved against the "
                    "directory, a missing host/port is None (= this server in every renderer). Only OSError is declared, for ANY content of the gophermap: a TAB line without an item type is shown as text, an unparsable port is ignored "
                    "(repaired defect: such lines used to raise IndexError / ValueError, which an earlier session had declared in this contract).",
               props=["C09", "C01", "C03", "C05"])
    w.contract("pygopherd/gopherentry.py::getinfoentry", params={"text": "str", "config": "obj:Config"}, modifies=[], raises={}, returns="obj:GopherEntry",
               ensures=["result.type == 'i'", "result.name == text", "result.host == '(NULL)'", "result.port == 0", "result.selector == 'fake'"],
               props=["C09", "C06"])
    w.contract(GM + "getdirlist", selfclass=["BuckGophermapHandler"], modifies=[], raises={}, returns="list[obj:GopherEntry]",
               ensures=["result is self.entries"], note="the same list drives the listing in every protocol (shared writedir)", props=["C09"])
    c = w.contracts[(GM + "canhandlerequest", "BuckGophermapHandler")]
    c.ensures = c.ensures + ["implies(result, stat.S_ISDIR(self.statresult[0]) or (stat.S_ISREG(self.statresult[0]) and self.selector.endswith('.gophermap')))",
                             "implies(self.statresult is not None and stat.S_ISREG(self.statresult[0]) and self.selector.endswith('.gophermap'), result)"]
    c.props = sorted(set(c.props) | {"C09"})
    c = w.contracts.pop(("pygopherd/gopherentry.py::GopherEntry.populatefromvfs", None))
    w.contract("pygopherd/gopherentry.py::GopherEntry.populatefromvfs", params={"vfs": "obj:VFS_Real", "selector": "str"},
               globals=dict(GROOT, mapping="opt[list[list[str]]]", eaexts="opt[dict[str,str]]"),
               requires=["S.safe_sel(selector)", "vfs.config is self.config", "G.rootpath is None or G.rootpath == '' or G.rootpath == %s" % ROOT, "S.abs_root(%s)" % ROOT],
               modifies=["self.*", MROOT], raises={"OSError": True},
               ensures=["self.selector == old(self.selector)", "self.host == old(self.host)", "self.port == old(self.port)",
                        "implies(old(self.type) is not None and old(self.type) != '', self.type == old(self.type))", "implies(old(self.name) is not None and old(self.name) != '', self.name == old(self.name))"],
               props=["C09", "C01", "C04"])
