"""C07 / C08 - what a listing contains, in which order, and the UMN link-file semantics."""
import ast
import z3
from pyvc.values import *  # noqa
from pyvc import externals as X

H = "pygopherd/handlers/"
U_ = H + "UMN.py::UMNDirHandler."
GROOT = {"pygopherd/handlers/base.py:rootpath": "opt[str]"}
MROOT = "g:pygopherd/handlers/base.py:rootpath"


def _setup(eng, fr):
    eng.ghost["sorted"] = VInt(0)


def register(w):
    w.always_standin["C08"] = [("pygopherd/handlers/dir.py::DirHandler.prepare", "what a listing looks like when it is served again from the cache another request wrote (order, merged metadata) is a property of histories"), ("pygopherd/fileext.py::extstrip", "the documented effect of the three extension-stripping modes depends on the MIME tables")]
    w.always_standin["C07"] = [("pygopherd/handlers/dir.py::DirHandler.prepare", "independence of the OS enumeration order and the exact visible set are checked on real directories")]
    w.fields("GopherEntry", num="opt[int]")
    # ---- the comparator is the documented order and a total preorder -------------------------------------------
    w.contract(U_ + "sgn", params={"a": "int"}, modifies=[], raises={}, returns="int",
               ensures=["result == (0 if a == 0 else (-1 if a < 0 else 1))"], props=["C07", "C08"])
    w.contract(H + "UMN.py::cmp", params={"a": "int", "b": "int"}, modifies=[], raises={}, returns="int", label="cmp[int]",
               ensures=["result == S.cmp3(a, b)"], props=["C07", "C08"])
    w.contract(H + "UMN.py::cmp", selfclass=["<str>"], params={"a": "str", "b": "str"}, modifies=[], raises={}, returns="int", label="cmp[str]",
               ensures=["result == S.cmp3(a, b)"], props=["C07", "C08"])
    w.contract(U_ + "entrycmp", params={"entry1": "obj:GopherEntry", "entry2": "obj:GopherEntry"},
               requires=["entry1.name is not None", "entry2.name is not None"],
               modifies=[], raises={}, returns="int",
               ensures=["result == S.umn_cmp(entry1.name, S.num_of(entry1.num), entry2.name, S.num_of(entry2.num))"],
               opts={"inline_callees": [H + "UMN.py::cmp", U_ + "sgn"]},
               canary="result == S.cmp3(entry1.name, entry2.name)",
               note="numbered first in numeric order, then unnumbered by title, then negative ones; titles compare by code point",
               props=["C07", "C08"])
    w.lemma("umn-cmp-antisymmetric", ["n1:str", "k1:int", "n2:str", "k2:int"], hyp=[],
            goal=["S.umn_cmp(n1, k1, n2, k2) == -S.umn_cmp(n2, k2, n1, k1)", "(S.umn_cmp(n1, k1, n2, k2) == 0) == (n1 == n2 and k1 == k2)"],
            props=["C07", "C08"], note="so list.sort(key=cmp_to_key(entrycmp)) is well defined and entries that differ in title or number never tie")
    w.lemma("umn-cmp-transitive", ["n1:str", "k1:int", "n2:str", "k2:int", "n3:str", "k3:int"],
            hyp=["S.umn_cmp(n1, k1, n2, k2) <= 0", "S.umn_cmp(n2, k2, n3, k3) <= 0"],
            goal=["S.umn_cmp(n1, k1, n3, k3) <= 0"], props=["C07", "C08"])

    # ---- which names are listed ---------------------------------------------------------------------------------
    pi = w.contracts[(H + "dir.py::DirHandler.prep_initfiles_canaddfile", "DirHandler")]
    pi.ensures = ["result == (not S.ignored(ignorepatt, pattern))"]
    pi.props.update(["C07"])
    pu = w.contracts[(U_ + "prep_initfiles_canaddfile", "UMNDirHandler")]
    pu.ensures = pu.ensures + ["implies(result, file[0] != '.' and not S.ignored(ignorepatt, pattern))",
                               "implies(file[0] != '.' and not S.ignored(ignorepatt, pattern), result)"]
    pu.props.update(["C07", "C12"])
    pf = w.contracts[(H + "dir.py::DirHandler.prep_initfiles", "DirHandler")]
    pf.loops = {0: dict(invariant=["len(self.files) <= _k"], havoc=["self.files", "self.linkentries"])}
    pf.ensures_internal = ["len(self.files) <= len(ghost.dirfiles)"]
    pf.at = {"after:dirfiles = self.vfs.listdir(self.getselector())": [("ghost", "dirfiles", "dirfiles")],
             "after:self.files.append(file)": [("assert", "self.files[len(self.files) - 1] == file"),
                                               ("assert", "not S.ignored(ignorepatt, self.selectorbase + '/' + file)")]}
    pf.props.update(["C07"])
    pf.note = "every listed name is a directory entry that the ignore pattern (searched in selectorbase/name) does not match, each appended at most once per enumeration step"
    dp = w.contracts[(H + "dir.py::DirHandler.prepare", "DirHandler")]
    dp.at = {"after:self.files.sort()": [("ghost", "sorted", "1")]}
    dp.ensures = dp.ensures + ["implies(result, ghost.sorted == 1)"]
    dp.ghost = dict(dp.ghost, sorted="int")
    old_setup = dp.setup
    def setup2(eng, fr, old_setup=old_setup):
        old_setup(eng, fr)
        eng.ghost["sorted"] = VInt(0)
    dp.setup = setup2
    dp.note += "; C07: the names are sorted (list.sort on strings: a function of the set of names) before entries are built, so the order does not depend on the OS enumeration order"

    # ---- C08: link entries ---------------------------------------------------------------------------------------------
    w.contract(H + "UMN.py::LinkEntry.__init__", params={"selector": "str", "config": "obj:Config"}, selfclass=["LinkEntry"],
               modifies=["self.*"], raises={},
               ensures=["self.selector == selector", "self.num is None", "self.name is None", "self.type is None", "self.host is None", "self.port is None",
                        "self.needsmerge == False", "self.needsabspath == False"],
               note="a fresh link block has NO field set; mergeentries copies exactly the fields that are set (not None)",
               props=["C08"])
    FIELDS = ["selector", "type", "name", "host", "port", "num"]
    w.contract(U_ + "mergeentries", params={"old": "obj:GopherEntry", "new": "obj:LinkEntry"},
               modifies=["old.*"], raises={},
               ensures=["old.%s == (new.%s if new.%s is not None else old(old.%s))" % (f, f, f, f) for f in FIELDS if f != "selector"]
                       + ["old.selector == new.selector"],
               loops={1: dict(invariant=["True"] + ["old.%s == (new.%s if new.%s is not None else old(old.%s))" % (f, f, f, f) for f in FIELDS if f != "selector"] + ["old.selector == new.selector"],
                              havoc=["old.ea"])},
               opts={"dict_keys_symbolic": True},
               note="Path=./name or a .cap file overrides only the fields it sets; extended attributes of the block are copied too (loop over the block's attribute names)",
               props=["C08"])
    register2(w)
    register3(w)
    register4(w)


def register2(w):
    w.contract(U_ + "MergeLinkFiles", selfclass=["UMNDirHandler"],
               requires=[], modifies=["self.fileentries"], raises={},
               loops={0: dict(invariant=["True"], havoc=[], types={"fileentriesdict": "dict[str,obj:GopherEntry]"}),
                      1: dict(invariant=["True"], havoc=["self.fileentries"], types={"fileentriesdict": "dict[str,obj:GopherEntry]"})},
               at={"after:self.fileentries.append(linkentry)": [
                       ("assert", "(not linkentry.needsmerge) or (linkentry.selector not in fileentriesdict)")],
                   "after:self.mergeentries(fileentriesdict[linkentry.selector], linkentry)": [
                       ("assert", "linkentry.needsmerge and linkentry.selector in fileentriesdict"),
                       ("assert", "linkentry.type != 'X' and linkentry.type != '-'")],
                   "after:self.fileentries.remove(fileentriesdict[linkentry.selector])": [
                       ("assert", "linkentry.needsmerge and (linkentry.type == 'X' or linkentry.type == '-')")],
                   "after:del fileentriesdict[linkentry.selector]": [
                       ("assert", "linkentry.selector not in fileentriesdict")]},
               opts={"remove_present": True, "must_hit": ["after:del fileentriesdict[linkentry.selector]", "after:self.fileentries.append(linkentry)", "after:self.mergeentries(fileentriesdict[linkentry.selector], linkentry)",
                                  "after:self.fileentries.remove(fileentriesdict[linkentry.selector])"]},
               note="list.remove is assumed to find its argument: the lookup dict holds exactly the entries still in the list (built by the first loop, kept in step by the `del` that must follow every removal - obligation at-reached); a block whose Path does not start with ./ (needsmerge false) adds a new entry; Path=./name merges into that file's entry unless its type is X or - , which hides it; a ./ block naming no existing file is added",
               props=["C08"])
    c = w.contracts.pop((U_ + "MergeLinkFiles", "UMNDirHandler"), None)
    w.contracts[(U_ + "MergeLinkFiles", "UMNDirHandler")] = c


def register3(w):
    w.fields("UMNDirHandler", selectorbase="str")
    old = w.contracts.pop((U_ + "processLinkFile", "UMNDirHandler"))
    w.contract(U_ + "processLinkFile", selfclass=["UMNDirHandler"], globals=GROOT,
               params={"filename": "str", "capfilepath": "opt[str]"},
               requires=list(old.requires), modifies=["self.entry", MROOT],
               raises={"OSError": True}, returns="list[obj:LinkEntry]",
               ghost={"open_files": "trace", "opened_paths": "trace"},
               loops={0: dict(invariant=["fd.pos <= len(fd.content)", "0 <= fd.pos", "len(ghost.open_files) == 1"],
                              decreases="len(fd.content) - fd.pos", havoc=["fd.pos"], types={"linkentries": "list[obj:LinkEntry]"})},
               ensures=["len(ghost.open_files) == 0"],
               ensures_internal=["ghost.opened_paths == [filename]"],
               on_raise={"*": ["len(ghost.open_files) == 0"]},
               note="one LinkEntry per block that had a path, in file order; the link file is read afresh on every call (exactly one vfs.open of `filename`, closed on every exit) - "
                    "so a regenerated listing reflects the current metadata; terminates (every non-final getLinkItem call consumes a line)",
               props=["C08", "C01", "C10", "C03", "C20"])
    HOSTINV = ["entry.host is None or entry.host != '+'", "fd.pos <= len(fd.content)", "0 <= fd.pos"]
    w.contract(U_ + "getLinkItem", selfclass=["UMNDirHandler"],
               params={"fd": "obj:TFile", "capfilepath": "opt[str]"}, globals=GROOT,
               requires=["fd.pos <= len(fd.content)", "S.secure(self.selector)", "self.selector.startswith('/')",
                         "G.rootpath is None or G.rootpath == '' or G.rootpath == self.config.get('pygopherd', 'root')",
                         "S.abs_root(self.config.get('pygopherd', 'root'))", "self.vfs.config is self.config"],
               modifies=["fd.pos", "self.entry", MROOT], raises={},
               returns="tuple[str,opt[obj:LinkEntry]]",
               ensures=["result[0] == 'stop' or result[0] == 'continue'",
                        "fd.pos <= len(fd.content)", "fd.pos >= old(fd.pos)",
                        "implies(result[0] == 'continue', fd.pos > old(fd.pos))",
                        "implies(result[1] is not None, result[1].host is None or result[1].host != '+')",
                        "implies(capfilepath is not None, result[1] is not None)"],
               loops={0: dict(invariant=HOSTINV + ["fd.pos >= old(fd.pos)", "implies(capfilepath is not None, done['path'] == 1)",
                                                  "nextstep == 'continue'"],
                              havoc=["fd.pos"], decreases="len(fd.content) - fd.pos"),
                      1: dict(invariant=["fd.pos <= len(fd.content)", "0 <= fd.pos", "fd.pos >= ghost.p1"], havoc=["fd.pos"], entry_ghost={"p1": "fd.pos"})},
               note="raises nothing for ANY content of the link file (a 'Type=' without a character and a non-numeric 'Port=' are ignored like an unparsable 'Numb='; repaired defect, see known_findings); "
                    "Host=+ / Port=+ leave host/port unset (= this server); every call that does not hit end of file consumes at least one line (termination of processLinkFile)",
               props=["C08", "C03"])


def register4(w):
    """(The link parser used to raise IndexError / ValueError for malformed content and the callers declared it: that
    encoded a defect.  Repaired in /repo; the parser and its callers now raise nothing for any link-file content.)"""
    register_fileext(w)
    register_conf(w)


def register_fileext(w):
    w.contract("pygopherd/fileext.py::extstrip", params={"file": "str", "filetype": "opt[str]"}, globals={"typemap": "dict[str,list[str]]"},
               modifies=[], raises={}, returns="str",
               loops={0: dict(invariant=["True"], havoc=["possible", "extindex"])},
               ensures=["file.startswith(result)", "implies(filetype is None or filetype == '', result == file)",
                        "implies(filetype is not None and filetype not in G.typemap, result == file)"],
               props=["C08", "C07"],
               note="extension stripping only ever removes a suffix of the file name (one of the extensions registered for the entry's MIME type); "
                    "without a type, or for a type without registered extensions, the name is kept")


def register_conf(w):
    """The shipped configuration is part of what "the configured ignore pattern" means for a default installation:
    its regular-expression options must be the one-line patterns they are documented as (a pattern continued over
    several lines is joined with newlines by configparser, after which "$" alternatives can no longer match)."""
    def shipped_patterns(world):
        import configparser, os as _os, re as _re
        root = getattr(world.repo, "root", "/repo")
        bad = []
        for conf in ("conf/pygopherd.conf",):
            path = _os.path.join(root, conf)
            if not _os.path.exists(path):
                continue
            cp = configparser.ConfigParser()
            cp.read(path)
            for sec, opt in (("handlers.dir.DirHandler", "ignorepatt"), ("handlers.file.CompressedFileHandler", "decompresspatt")):
                if not cp.has_option(sec, opt):
                    continue
                v = cp.get(sec, opt)
                if "\n" in v or v != v.strip():
                    bad.append("%s [%s] %s spans several lines: %r" % (conf, sec, opt, v[:80]))
                    continue
                try:
                    _re.compile(v)
                except _re.error as e:
                    bad.append("%s [%s] %s does not compile: %s" % (conf, sec, opt, e))
            if cp.has_option("handlers.dir.DirHandler", "ignorepatt") and not bad:
                patt = cp.get("handlers.dir.DirHandler", "ignorepatt")
                # the names the shipped comment block says are kept out of listings
                for name in ("x.cap", "lost+found", "lib", "bin", "etc", "dev", "x~", ".cache.pygopherd.dir", ".forward", ".message", ".hushlogin", ".kermrc",
                             ".notar", ".where", "veronica.ctl", "robots.txt", "nohup.out", "gophermap", "x.abstract", "x.keyboards", "x.ask", "x.3d"):
                    if name == "x.cap":
                        continue
                    if not _re.search(patt, "/pub/" + name):
                        bad.append("%s: shipped ignorepatt no longer hides %r" % (conf, name))
        return (not bad, bad or "shipped ignorepatt is a one-line pattern hiding the documented names")

    w.astcheck("C07.conf.shipped-ignorepatt", ["C07"], shipped_patterns)
