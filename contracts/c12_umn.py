"""C07 / C08 - what a listing contains, in which order, and the UMN link-file semantics."""
import ast
import z3
from pyvc.values import *  # noqa
from pyvc import externals as X

H = "pygopherd/handlers/"
U_ = H + "UMN.py::UMNDirHandler."
GROOT = {"pygopherd/handlers/base.py:rootpath": "opt[str]"}
MROOT = "g:pygopherd/handlers/base.py:rootpath"


def _setup(eng, fr):
    eng.ghost["sorted"] = VInt(0)


def register(w):
    w.fields("GopherEntry", num="opt[int]")
    # ---- the comparator is the documented order and a total preorder -------------------------------------------
    w.contract(U_ + "sgn", params={"a": "int"}, modifies=[], raises={}, returns="int",
               ensures=["result == (0 if a == 0 else (-1 if a < 0 else 1))"], props=["C07", "C08"])
    w.contract(H + "UMN.py::cmp", params={"a": "int", "b": "int"}, modifies=[], raises={}, returns="int", label="cmp[int]",
               ensures=["result == S.cmp3(a, b)"], props=["C07", "C08"])
    w.contract(H + "UMN.py::cmp", selfclass=["<str>"], params={"a": "str", "b": "str"}, modifies=[], raises={}, returns="int", label="cmp[str]",
               ensures=["result == S.cmp3(a, b)"], props=["C07", "C08"])
    w.contract(U_ + "entrycmp", params={"entry1": "obj:GopherEntry", "entry2": "obj:GopherEntry"},
               requires=["entry1.name is not None", "entry2.name is not None"],
               modifies=[], raises={}, returns="int",
               ensures=["result == S.umn_cmp(entry1.name, S.num_of(entry1.num), entry2.name, S.num_of(entry2.num))"],
               opts={"inline_callees": [H + "UMN.py::cmp", U_ + "sgn"]},
               canary="result == S.cmp3(entry1.name, entry2.name)",
               note="numbered first in numeric order, then unnumbered by title, then negative ones; titles compare by code point",
               props=["C07", "C08"])
    w.lemma("umn-cmp-antisymmetric", ["n1:str", "k1:int", "n2:str", "k2:int"], hyp=[],
            goal=["S.umn_cmp(n1, k1, n2, k2) == -S.umn_cmp(n2, k2, n1, k1)", "(S.umn_cmp(n1, k1, n2, k2) == 0) == (n1 == n2 and k1 == k2)"],
            props=["C07", "C08"], note="so list.sort(key=cmp_to_key(entrycmp)) is well defined and entries that differ in title or number never tie")
    w.lemma("umn-cmp-transitive", ["n1:str", "k1:int", "n2:str", "k2:int", "n3:str", "k3:int"],
            hyp=["S.umn_cmp(n1, k1, n2, k2) <= 0", "S.umn_cmp(n2, k2, n3, k3) <= 0"],
            goal=["S.umn_cmp(n1, k1, n3, k3) <= 0"], props=["C07", "C08"])

    # ---- which names are listed ---------------------------------------------------------------------------------
    pi = w.contracts[(H + "dir.py::DirHandler.prep_initfiles_canaddfile", "DirHandler")]
    pi.ensures = ["result == (not S.ignored(ignorepatt, pattern))"]
    pi.props.update(["C07"])
    pu = w.contracts[(U_ + "prep_initfiles_canaddfile", "UMNDirHandler")]
    pu.ensures = pu.ensures + ["implies(result, file[0] != '.' and not S.ignored(ignorepatt, pattern))",
                               "implies(file[0] != '.' and not S.ignored(ignorepatt, pattern), result)"]
    pu.props.update(["C07", "C12"])
    pf = w.contracts[(H + "dir.py::DirHandler.prep_initfiles", "DirHandler")]
    pf.loops = {0: dict(invariant=["len(self.files) <= _k"], havoc=["self.files", "self.linkentries"])}
    pf.ensures_internal = ["len(self.files) <= len(ghost.dirfiles)"]
    pf.at = {"after:dirfiles = self.vfs.listdir(self.getselector())": [("ghost", "dirfiles", "dirfiles")],
             "after:self.files.append(file)": [("assert", "self.files[len(self.files) - 1] == file"),
                                               ("assert", "not S.ignored(ignorepatt, self.selectorbase + '/' + file)")]}
    pf.props.update(["C07"])
    pf.note = "every listed name is a directory entry that the ignore pattern (searched in selectorbase/name) does not match, each appended at most once per enumeration step"
    dp = w.contracts[(H + "dir.py::DirHandler.prepare", "DirHandler")]
    dp.at = {"after:self.files.sort()": [("ghost", "sorted", "1")]}
    dp.ensures = dp.ensures + ["implies(result, ghost.sorted == 1)"]
    dp.ghost = dict(dp.ghost, sorted="int")
    old_setup = dp.setup
    def setup2(eng, fr, old_setup=old_setup):
        old_setup(eng, fr)
        eng.ghost["sorted"] = VInt(0)
    dp.setup = setup2
    dp.note += "; C07: the names are sorted (list.sort on strings: a function of the set of names) before entries are built, so the order does not depend on the OS enumeration order"

    # ---- C08: link entries ---------------------------------------------------------------------------------------------
    w.contract(H + "UMN.py::LinkEntry.__init__", params={"selector": "str", "config": "obj:Config"}, selfclass=["LinkEntry"],
               modifies=["self.*"], raises={},
               ensures=["self.selector == selector", "self.num is None", "self.name is None", "self.type is None", "self.host is None", "self.port is None",
                        "self.needsmerge == False", "self.needsabspath == False"],
               note="a fresh link block has NO field set; mergeentries copies exactly the fields that are set (not None)",
               props=["C08"])
    FIELDS = ["selector", "type", "name", "host", "port", "num"]
    w.contract(U_ + "mergeentries", params={"old": "obj:GopherEntry", "new": "obj:LinkEntry"},
               modifies=["old.*"], raises={},
               ensures=["old.%s == (new.%s if new.%s is not None else old(old.%s))" % (f, f, f, f) for f in FIELDS if f != "selector"]
                       + ["old.selector == new.selector"],
               loops={1: dict(invariant=["True"] + ["old.%s == (new.%s if new.%s is not None else old(old.%s))" % (f, f, f, f) for f in FIELDS if f != "selector"] + ["old.selector == new.selector"],
                              havoc=["old.ea"])},
               opts={"dict_keys_symbolic": True},
               note="Path=./name or a .cap file overrides only the fields it sets; extended attributes of the block are copied too (loop over the block's attribute names)",
               props=["C08"])
    register2(w)


def register2(w):
    w.contract(U_ + "MergeLinkFiles", selfclass=["UMNDirHandler"],
               requires=[], modifies=["self.fileentries"], raises={},
               loops={0: dict(invariant=["True"], havoc=[]),
                      1: dict(invariant=["True"], havoc=["self.fileentries"])},
               at={"after:self.fileentries.append(linkentry)": [
                       ("assert", "(not linkentry.needsmerge) or (linkentry.selector not in fileentriesdict)")],
                   "after:self.mergeentries(fileentriesdict[linkentry.selector], linkentry)": [
                       ("assert", "linkentry.needsmerge and linkentry.selector in fileentriesdict"),
                       ("assert", "linkentry.type != 'X' and linkentry.type != '-'")],
                   "after:self.fileentries.remove(fileentriesdict[linkentry.selector])": [
                       ("assert", "linkentry.needsmerge and (linkentry.type == 'X' or linkentry.type == '-')")],
                   "after:del fileentriesdict[linkentry.selector]": [
                       ("assert", "linkentry.selector not in fileentriesdict")]},
               opts={"remove_present": True, "must_hit": ["after:del fileentriesdict[linkentry.selector]", "after:self.fileentries.append(linkentry)", "after:self.mergeentries(fileentriesdict[linkentry.selector], linkentry)",
                                  "after:self.fileentries.remove(fileentriesdict[linkentry.selector])"]},
               note="list.remove is assumed to find its argument: the lookup dict holds exactly the entries still in the list (built by the first loop, kept in step by the `del` that must follow every removal - obligation at-reached); a block whose Path does not start with ./ (needsmerge false) adds a new entry; Path=./name merges into that file's entry unless its type is X or - , which hides it; a ./ block naming no existing file is added",
               props=["C08"])
    c = w.contracts.pop((U_ + "MergeLinkFiles", "UMNDirHandler"), None)
    w.contracts[(U_ + "MergeLinkFiles", "UMNDirHandler")] = c
