"""C02 - protocol autodetection is deterministic, ordered and strict about TLS."""
import ast
import configparser
import os

import z3
from pyvc.values import *  # noqa
from pyvc import externals as X
from pyvc.engine import Raised, OutOfSubset

P = "pygopherd/protocols/"
BASE = P + "base.py::BaseGopherProtocol."
INV_REQUESTLIST = "[arg.strip() for arg in self.request.split('\\t')]"
WAPTOP = "self.config.get('protocols.wap.WAPProtocol', 'waptop')"

PROTO_CLASSES = ["GopherProtocol", "SecureGopherProtocol", "EnhancedGopherProtocol", "GopherPlusProtocol", "SecureGopherPlusProtocol",
                 "URLGopherPlus", "HTTPProtocol", "HTTPSProtocol", "WAPProtocol", "GeminiProtocol", "SpartanProtocol"]


def shipped_protocols(world):
    """The protocol list of conf/pygopherd.conf, read at run time: class names in order."""
    cfg = configparser.ConfigParser()
    cfg.read(os.path.join(world.repo.root, "conf", "pygopherd.conf"))
    expr = ast.parse(cfg.get("protocols.ProtocolMultiplexer", "protocols").strip(), mode="eval").body
    return [e.attr for e in expr.elts]


def _sock_recv(eng, world, sock, args, kwargs, node):
    """recv(n, flags): with MSG_PEEK returns a prefix of the pending bytes without consuming; without
    it the bytes are consumed (ghost field `consumed` counts them)."""
    eng.assumptions_used.add("socket.recv(n, MSG_PEEK) returns up to n pending bytes and consumes nothing (POSIX); without MSG_PEEK the returned bytes are consumed")
    n = eng.force(args[0])
    flags = eng.force(args[1]) if len(args) > 1 else VInt(0)
    pending = eng.getattr(sock, "pending")
    k = z3.Int(eng.fresh_name("recv_k"))
    L = z3.Length(pending.z)
    eng.assume(z3.And(k >= 0, k <= zint(n.z), k <= L))
    eng.assume(z3.Implies(z3.And(L > 0, zint(n.z) > 0), k >= 1))
    data = VStr(z3.SubString(pending.z, 0, k), True)
    peek = eng.branch(zint(flags.z) == 2) if not is_conc(flags.z) else flags.z == 2
    if not peek:
        sock.fields["pending"] = VStr(z3.SubString(pending.z, k, L - k), True)
        sock.fields["consumed"] = VInt(z3.simplify(zint(eng.getattr(sock, "consumed").z) + k))
    sock.fields["ncalls"] = VInt(z3.simplify(zint(eng.getattr(sock, "ncalls").z) + 1))
    return data


def _ctx_wrap(eng, world, ctx, args, kwargs, node):
    sock = eng.force(args[0])
    o = VObj("TLSSock", name=eng.fresh_name("tlssock"))
    o.fields["inner"] = sock
    o.fresh_alloc = True
    return o


X.OBJ_IMPL[("Sock", "recv")] = _sock_recv
X.OBJ_IMPL[("SSLContext", "wrap_socket")] = _ctx_wrap


def register(w):
    w.fields("Sock", pending="bytes", consumed="int", ncalls="int")
    w.fields("HTTPProtocol", requestparts="list[str]", httpheaders="dict[str,str]")
    w.fields("WAPProtocol", waptop="str")
    w.fields("GopherPlusProtocol", gopherpstring="str", handlemethod="opt[str]")
    w.fields("RequestHandler", pygopherd_http_slurped="maybe:dict[str,str]", rfile="obj:RFile", wfile="obj:WFile", server="obj:Server")

    # ---- request splitting (class invariant of every protocol object) ----------------------
    w.contract(
        BASE + "__init__",
        params={"request": "str", "server": "obj:Server", "requesthandler": "obj:RequestHandler",
                "rfile": "obj:RFile", "wfile": "obj:WFile", "config": "obj:Config"},
        selfclass=PROTO_CLASSES + ["BaseGopherProtocol"],
        modifies=["self.*"],
        raises={},
        ensures=["self.request == request", "self.rfile is rfile", "self.wfile is wfile", "self.config is config",
                 "self.server is server", "self.requesthandler is requesthandler",
                 "self.requestlist == [arg.strip() for arg in request.split('\\t')]",
                 "self.searchrequest is None", "self.handler is None",
                 "self.selector == S.norm(self.requestlist[0])"],
        props=["C02", "C05", "C06"],
    )
    w.contract(
        BASE + "slashnormalize",
        params={"selector": "str"},
        selfclass=PROTO_CLASSES + ["BaseGopherProtocol"],
        modifies=[], raises={}, returns="str",
        loops={0: dict(invariant=["selector.rstrip('/') == old(selector).rstrip('/')", "old(selector).startswith(selector)"], decreases="len(selector)", havoc=["selector"])},
        ensures=["result == S.norm(selector)", "result.startswith('/')", "result == '/' or not result.endswith('/')"],
        props=["C02", "C05", "C06", "C10", "C03"],
        note="every trailing slash is dropped: '<dir>//' is '<dir>' (listed under the spelling '<dir>/' its children would be refused by the filter and the empty listing cached)",
    )
    w.contract(
        BASE + "check_tls",
        selfclass=PROTO_CLASSES + ["BaseGopherProtocol"],
        modifies=[], raises={}, returns="bool",
        ensures=["result == S.tls(self)"],
        props=["C02"],
    )

    # ---- per-protocol predicates ---------------------------------------------------------------
    common = dict(init={"requestlist": INV_REQUESTLIST}, raises={}, returns="bool")
    MATCH = "result == S.proto_matches(type(self).__name__, self.request, S.tls(self), %s, ghost.conn_headers)" % WAPTOP
    w.contract(
        P + "rfc1436.py::GopherProtocol.canhandlerequest",
        selfclass=["GopherProtocol", "SecureGopherProtocol", "EnhancedGopherProtocol"],
        ghost={"conn_headers": "dict[str,str]"},
        modifies=["self.searchrequest"],
        ensures=[MATCH,
                 "implies(result and len(self.requestlist) > 1, self.searchrequest == self.requestlist[1])",
                 "implies(result and len(self.requestlist) <= 1, self.searchrequest is old(self.searchrequest))"],
        canary="result == True",
        props=["C02", "C06"], **common)
    w.contract(
        P + "gopherp.py::GopherPlusProtocol.canhandlerequest",
        selfclass=["GopherPlusProtocol", "SecureGopherPlusProtocol", "URLGopherPlus"],
        ghost={"conn_headers": "dict[str,str]"},
        modifies=["self.searchrequest", "self.gopherpstring"],
        ensures=[MATCH,
                 "implies(result, self.gopherpstring == self.requestlist[len(self.requestlist) - 1])",
                 "implies(result and len(self.requestlist) == 3, self.searchrequest == self.requestlist[1])"],
        canary="result == False",
        props=["C02", "C06"], **common)
    w.contract(
        P + "http.py::HTTPProtocol.canhandlerequest",
        selfclass=["HTTPProtocol", "HTTPSProtocol"],
        ghost={"conn_headers": "dict[str,str]"},
        modifies=["self.requestparts"],
        ensures=[MATCH, "implies(result, self.requestparts == [arg.strip() for arg in self.request.split(' ')])"],
        canary="result == False",
        props=["C02"], **common)
    w.contract(
        P + "http.py::HTTPProtocol.canhandlerequest",
        selfclass=["WAPProtocol"],
        label="WAPProtocol::HTTPProtocol.canhandlerequest",
        ghost={"conn_headers": "dict[str,str]"},
        modifies=["self.requestparts"],
        ensures=["result == ((S.tls(self) == False) and S.shape_http(self.request))",
                 "implies(result, self.requestparts == [arg.strip() for arg in self.request.split(' ')])"],
        props=["C02"], **common)
    w.contract(
        P + "http.py::HTTPProtocol.headerslurp",
        selfclass=["HTTPProtocol", "HTTPSProtocol", "WAPProtocol"],
        ghost={"conn_headers": "dict[str,str]"},
        modifies=["self.httpheaders", "self.rfile.pos", "self.requesthandler.pygopherd_http_slurped"],
        requires=["self.rfile.pos <= len(self.rfile.content)"],
        raises={},
        ensures=["self.httpheaders is self.requesthandler.pygopherd_http_slurped",
                 "implies(old(hasattr(self.requesthandler, 'pygopherd_http_slurped')), self.httpheaders is old(self.requesthandler.pygopherd_http_slurped))",
                 "implies(old(hasattr(self.requesthandler, 'pygopherd_http_slurped')), self.rfile.pos == old(self.rfile.pos))"],
        ensures_assumed=["self.httpheaders is ghost.conn_headers"],
        loops={0: dict(invariant=["0 <= self.rfile.pos", "self.rfile.pos <= len(self.rfile.content)"],
                       decreases="len(self.rfile.content) - self.rfile.pos", havoc=["self.rfile.pos", "self.httpheaders"])},
        note="conn_headers is the ghost name of the per-connection header map: by definition the dict the first headerslurp() stores; the verified clauses are memoisation, termination and totality",
        props=["C02", "C03"])
    w.contract(
        P + "wap.py::WAPProtocol.canhandlerequest",
        selfclass=["WAPProtocol"],
        ghost={"conn_headers": "dict[str,str]"},
        modifies=["self.requestparts", "self.waptop", "self.httpheaders", "self.rfile.pos", "self.requesthandler.pygopherd_http_slurped"],
        requires=["self.rfile.pos <= len(self.rfile.content)"],
        ensures=[MATCH],
        canary="result == False",
        props=["C02"], **common)
    w.contract(
        P + "gemini.py::GeminiProtocol.canhandlerequest",
        selfclass=["GeminiProtocol"],
        ghost={"conn_headers": "dict[str,str]"},
        modifies=[],
        ensures=[MATCH],
        canary="result == False",
        props=["C02"], **common)
    w.contract(
        P + "spartan.py::SpartanProtocol.canhandlerequest",
        selfclass=["SpartanProtocol"],
        ghost={"conn_headers": "dict[str,str]"},
        modifies=[],
        ensures=[MATCH],
        canary="result == False",
        props=["C02"], **common)

    # ---- first match wins; totality of the shipped list -----------------------------------------
    order = shipped_protocols(w)

    def cfg_protocols(eng):
        return VList([VClass(n) for n in order])

    w.contract(
        P + "ProtocolMultiplexer.py::getProtocol",
        params={"request": "str", "server": "obj:Server", "requesthandler": "obj:RequestHandler",
                "rfile": "obj:RFile", "wfile": "obj:WFile", "config": "obj:Config"},
        ghost={"conn_headers": "dict[str,str]"},
        requires=["rfile.pos <= len(rfile.content)"],
        raises={}, returns="obj:AnyProtocol",
        ensures=["result is not None", "result.requesthandler is requesthandler"],
        ensures_internal=[
            "type(result).__name__ == S.first_matching(%r, request, S.tls_conn(requesthandler), config.get('protocols.wap.WAPProtocol', 'waptop'), ghost.conn_headers)" % (order,),
            "result.request == request",
        ],
        opts={"cfgeval:protocols.ProtocolMultiplexer/protocols": cfg_protocols},
        locals={},
        note="verified against the protocol list of conf/pygopherd.conf as read at run time: %s" % order,
        props=["C02", "C03"])

    # ---- TLS sniffing --------------------------------------------------------------------------------
    w.fields("BaseServer", context="opt[obj:SSLContext]", config="obj:Config")
    w.contract(
        "pygopherd/server.py::BaseServer.wrap_socket",
        selfclass=["BaseServer", "ForkingTCPServer", "ThreadingTCPServer"],
        params={"sock": "obj:Sock"},
        requires=["len(sock.pending) >= 1", "sock.consumed == 0", "sock.ncalls == 0"],
        raises={},
        ensures=[
            "(result is not sock) == (self.context is not None and sock.pending[0] == 22)",
            "implies(result is not sock, result.inner is sock)",
            "sock.consumed == 0",
            "sock.pending == old(sock.pending)",
            "sock.ncalls <= 1",
        ],
        canary="result is sock",
        note="requires: at least one byte pending (recv blocks until then); the 256 values of the first byte are the symbolic sock.pending[0]",
        props=["C02"])

    def secure_flags(world):
        """TLS_PROTOCOLS of the spec is the documented set; every protocol class's `secure` attribute is
        either inherited or a literal True/False (so `self.secure` is a constant per class)."""
        bad = []
        for name in world.repo.subclasses("BaseGopherProtocol"):
            node = world.repo.class_attr(name, "secure")
            if not (isinstance(node, ast.Constant) and isinstance(node.value, bool)):
                bad.append("%s.secure is not a boolean literal" % name)
        known = set(PROTO_CLASSES) | {"BaseGopherProtocol"}
        for name in world.repo.subclasses("BaseGopherProtocol"):
            if name not in known:
                bad.append("protocol class %s has no contract (new subclass of BaseGopherProtocol)" % name)
        for name in order:
            if name not in known:
                bad.append("configured protocol %s has no contract" % name)
        return (not bad, bad or "all %d protocol classes are under contract; secure flags are literals" % len(known))

    w.astcheck("C02.ast.protocol-classes-under-contract", ["C02"], secure_flags)
    register_generic(w)


IFACE_P = '''
class AnyProtocolClass:
    """Interface of an arbitrary protocol class taken from a configured protocol list."""
    def __init__(self, request, server, requesthandler, rfile, wfile, config):
        pass
    def canhandlerequest(self):
        pass
'''


def register_generic(w):
    """getProtocol for an ARBITRARY configured protocol list: the first protocol whose own test accepts wins,
    and nothing is returned when none accepts."""
    from pyvc.extract import ClassInfo, FuncInfo
    tree = ast.parse(IFACE_P)
    ci = ClassInfo("iface", tree.body[0])
    w.repo.classes.setdefault("AnyProtocolClass", []).append(ci)
    for m in ci.methods.values():
        fi = FuncInfo("iface", "AnyProtocolClass", m, ast.get_source_segment(IFACE_P, m))
        w.repo.funcs[fi.qualname] = fi
    w.fields("AnyProtocolClass", request="str", accepts="ghost:bool", requesthandler="obj:RequestHandler")
    w.contract("iface::AnyProtocolClass.__init__",
               params={"request": "str", "server": "obj:Server", "requesthandler": "obj:RequestHandler", "rfile": "obj:RFile", "wfile": "obj:WFile", "config": "obj:Config"},
               modifies=["self.*"], raises={}, assumed=True, ensures=["self.request == request", "self.requesthandler is requesthandler"],
               note="interface: BaseGopherProtocol.__init__ (verified per class) stores the request", props=["C02"])
    w.contract("iface::AnyProtocolClass.canhandlerequest", modifies=["ghost.naccepted"], raises={}, returns="bool", assumed=True,
               ghost={"naccepted": "int"},
               ensures=["result == self.accepts", "ghost.naccepted == old(ghost.naccepted) + (1 if self.accepts else 0)"],
               note="interface: each class's canhandlerequest is a total predicate (verified per class: raises nothing, result == proto_matches(...)); naccepted counts acceptances (ghost)",
               props=["C02"])

    def setup(eng, fr):
        eng.ghost["naccepted"] = VInt(0)

    w.contract(
        P + "ProtocolMultiplexer.py::getProtocol", selfclass=["<any-list>"], label="getProtocol[any protocol list]",
        params={"request": "str", "server": "obj:Server", "requesthandler": "obj:RequestHandler",
                "rfile": "obj:RFile", "wfile": "obj:WFile", "config": "obj:Config"},
        ghost={"naccepted": "int"}, setup=setup,
        raises={},
        ensures=["(result is None and ghost.naccepted == 0) or (result is not None and result.accepts and ghost.naccepted == 1)",
                 "implies(result is not None, result.request == request and result.requesthandler is requesthandler)"],
        loops={0: dict(invariant=["ghost.naccepted == 0"], havoc_ghost=["naccepted"])},
        opts={"cfgeval:protocols.ProtocolMultiplexer/protocols": "list[class:AnyProtocolClass]"},
        note="arbitrary list and order: first match wins (exactly one acceptance has been seen when a protocol is returned), None iff nobody accepts",
        props=["C02"])
