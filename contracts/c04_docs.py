"""C04 - documents are delivered byte-for-byte with truthful length and type.

(The copy loop VFS_Real.copyto and FileHandler.write are in c01_paths.py, the protocols' handle() functions
in c03_handle.py; this file adds the entry-population contracts and the per-class length obligation.)"""
import z3
from pyvc.values import *  # noqa
from pyvc import externals as X

H = "pygopherd/handlers/"
GE = "pygopherd/gopherentry.py::GopherEntry."
GROOT = {"pygopherd/handlers/base.py:rootpath": "opt[str]"}
MROOT = "g:pygopherd/handlers/base.py:rootpath"
ROOT = "self.config.get('pygopherd', 'root')"
VFSREQ = ["G.rootpath is None or G.rootpath == '' or G.rootpath == %s" % ROOT, "S.abs_root(%s)" % ROOT]
INV = ["S.secure(self.selector)", "self.selector.startswith('/')"]
UNPOP = "old(self.populated) == 0 and old(self.host) is None and old(self.port) is None and statval is not None"


def register(w):
    w.always_standin["C04"] = [("pygopherd/protocols/wap.py::WAPProtocol.handlerwrite", "the relation between the WML deck and the source document's lines (one line per LF-delimited line) is not expressed by the loop contract"),
                               ("pygopherd/initialization.py::init_mimetypes", "the configured MIME tables live in process-global state of the standard mimetypes module (modelled as an uninterpreted guess_type): that the configured encoding list replaces the built-in one is checked on the real module")]
    # ---- populatefromfs: what an entry learns from the file system ----------------------------------------
    c = w.contracts.pop((GE + "populatefromfs", None))
    w.contract(GE + "populatefromfs",
               params={"fspath": "str", "statval": "opt[stat]", "vfs": "opt[obj:VFS_Real]"},
               globals=dict(GROOT, mapping="opt[list[list[str]]]", eaexts="opt[dict[str,str]]"),
               requires=["S.safe_sel(fspath)", "implies(vfs is not None, vfs.config is self.config)"] + VFSREQ,
               modifies=["self.*", MROOT], raises={},
               ensures=[
                   "self.selector == old(self.selector)", "self.host == old(self.host)", "self.port == old(self.port)",
                   "implies(old(self.type) is not None and old(self.type) != '', self.type == old(self.type))", "implies(old(self.name) is not None and old(self.name) != '', self.name == old(self.name))",
                   "implies(%s and not stat.S_ISDIR(statval[0]) and old(self.size) is None, self.size == statval[6])" % UNPOP,
                   "implies(%s and stat.S_ISDIR(statval[0]) and old(self.size) is None, self.size is None)" % UNPOP,
                   "implies(%s and stat.S_ISDIR(statval[0]) and old(self.mimetype) is None, self.mimetype == 'application/gopher-menu')" % UNPOP,
                   # the advertised type is the one the MIME tables (non-strict lookup on the selector) give
                   "implies(%s and not stat.S_ISDIR(statval[0]) and old(self.mimetype) is None and old(self.encoding) is None and old(self.encodedmimetype) is None, "
                   "S.mime_of(mimetypes.guess_type(self.selector, strict=False), self.config.get('GopherEntry', 'defaultmimetype'), self.mimetype, self.encoding, self.encodedmimetype))" % UNPOP,
                   "implies(%s and old(self.mtime) is None, self.mtime == statval[8])" % UNPOP,
                   VFSREQ[0],
               ],
               note="handleeaext (sidecar probing loop over the configured extension map) and guesstype (regex table from the configuration) are assumed contracts here; they are verified under C15/C08",
               props=["C01", "C04", "C15"])
    w.contract(GE + "guesstype", modifies=["g:mapping"], globals={"mapping": "opt[list[list[str]]]"}, raises={}, returns="str", assumed=True,
               note="first configured (pattern, type) rule whose pattern matches the MIME type, else '0' (configuration-driven loop)", props=["C04", "C01", "C15"])

    # ---- per-class obligation: the size an entry advertises is the number of body bytes its handler writes --------
    FS = INV + VFSREQ + ["self.vfs.config is self.config"]
    STATSIZE = "implies(self.statresult is not None, self.statresult[6] == len(fs_content(S.fspath_of(%s, self.selector))))" % ROOT
    c = w.contracts[(H + "file.py::FileHandler.getentry", "FileHandler")]
    c.requires = FS + [STATSIZE, "self.statresult is not None", "S.is_reg(self.statresult)"]
    c.ensures = ["self.entry is result",
                 "implies(old(self.entry) is None, result.size == len(fs_content(S.fspath_of(%s, self.selector))))" % ROOT,
                 "implies(old(self.entry) is None, result.selector == self.selector)"]
    c.props.update(["C04", "C15"])
    c.note = "requires: the size reported by stat equals the length of the content read later (file not modified between stat and read); statresult is that of a regular file (FileHandler.canhandlerequest)"
    w.contract(H + "file.py::CompressedFileHandler.getentry", selfclass=["CompressedFileHandler"], globals=GROOT,
               requires=FS + [STATSIZE, "self.statresult is not None", "S.is_reg(self.statresult)", "hasattr(self, 'decompressors')"],
               modifies=["self.entry", MROOT], raises={}, returns="obj:GopherEntry",
               ensures=["self.entry is result",
                        "implies(old(self.entry) is None and result.realencoding is not None, result.size is None)"],
               note="when the handler will decompress, the body is the decompressor's output: its length is unknown, so the entry must not advertise the on-disk size (Gopher+ '+<size>' header, +VIEWS)",
               props=["C04", "C15", "C01"])
    w.contract(H + "tal.py::TALFileHandler.getentry", selfclass=["TALFileHandler"], globals=GROOT,
               requires=FS + ["self.statresult is not None", "S.is_reg(self.statresult)"],
               modifies=["self.entry", MROOT], raises={"AssertionError": True}, returns="obj:GopherEntry",
               ensures=["self.entry is result", "implies(old(self.entry) is None, result.size is None)"],
               note="the body is the expanded template: length unknown",
               props=["C04", "C15", "C01"])

    # handlers that call their own getentry() again inherit its precondition (statresult of a regular file)
    cw = w.contracts[(H + "file.py::CompressedFileHandler.write", "CompressedFileHandler")]
    cw.requires = cw.requires + [STATSIZE, "self.statresult is not None", "S.is_reg(self.statresult)"]

    register_virtual_entries(w)


def _html_props(w):
    c = w.contracts.get(("pygopherd/handlers/html.py::HTMLFileTitleHandler.getentry", "HTMLFileTitleHandler"))
    if c is not None:
        c.props = set(c.props) | {"C04", "C13"}


def register_virtual_entries(w):
    w.finalizers.append(_html_props)
    """getentry of the handlers that do not describe a file: each is shown to satisfy the AnyHandler.getentry
    interface the protocols are verified against (raises nothing, advertises no size it cannot keep)."""
    H = "pygopherd/handlers/"
    P = ["C03", "C04", "C15", "C20"]
    w.contract(H + "scriptexec.py::ExecHandler.getentry", selfclass=["ExecHandler"], modifies=[], raises={}, returns="obj:GopherEntry",
               ensures=["result.size is None", "result.type == '0'", "result.mimetype == 'text/plain'", "result.selector == self.selectorreal", "result.gopherpsupport == 0"], props=P,
               note="the output of a script has no length known in advance: none is advertised (Gopher+ answers with the unknown-length marker)")
    w.contract(H + "mbox.py::FolderHandler.getentry", selfclass=["MBoxFolderHandler", "MaildirFolderHandler"], modifies=["self.entry"], raises={}, returns="obj:GopherEntry",
               ensures=["result is self.entry", "implies(old(self.entry) is None, result.size is None and result.type == '1' and result.mimetype == 'application/gopher-menu')"], props=P)
    w.contract(H + "url.py::HTMLURLHandler.getentry", selfclass=["HTMLURLHandler"], modifies=["self.entry"], raises={}, returns="obj:GopherEntry",
               ensures=["result is self.entry", "implies(old(self.entry) is None, result.size is None and result.type == 'h' and result.mimetype == 'text/html' and result.name == self.selector)"], props=P)
    w.contract(H + "base.py::BaseHandler.getentry", selfclass=["BaseHandler"], modifies=["self.entry"], raises={}, returns="obj:GopherEntry",
               ensures=["result is self.entry", "implies(old(self.entry) is None, result.size is None and result.selector == self.selector)"], props=P)
