#!/usr/bin/env python3-vt
import sys, time, faulthandler
sys.path.insert(0, '/verif')
faulthandler.dump_traceback_later(int(sys.argv[3]) if len(sys.argv) > 3 else 60, exit=True)
from pyvc import run
prop, idx = sys.argv[1], int(sys.argv[2])
w = run.load_world()
run._WORLD = w
jobs = run.jobs_for(w, prop)
if idx < 0:
    for i, j in enumerate(jobs):
        print(i, j)
    sys.exit()
t = time.time()
r = run.run_job(jobs[idx])
print(jobs[idx], "wall %.1f" % (time.time() - t), "undecided:", r['undecided'], "error:", r['error'])
obs = {}
for v in r['vcs']:
    obs.setdefault(v.name, []).append(v)
for n, vs in obs.items():
    st = set(v.status for v in vs)
    print("  ", st, n, len(vs), "%.2fs" % sum(v.time for v in vs), set(v.backend for v in vs))
    for v in vs:
        if v.status != 'unsat':
            print("      site", v.site, "note", v.note[:200])
            print("      model", v.model)
            break
