#!/bin/sh
# tools/runall.sh [tier]: run every registered check in turn, print one line each
cd /verif
for p in $(python3 -c "import json;print(' '.join(c['property_id'] for c in json.load(open('MANIFEST.json'))['checks']))"); do
  ./check $p --tier ${1:-quick} 2>&1 | grep -E "^(OK|VIOLATION|UNDECIDED|CHECKER|KNOWN)" | cut -c1-300
done
