#!/usr/bin/env python3-vt
"""tools/sync_notes.py: regenerate (a) the 'Always-run bounded stand-ins' sentence of every level_note in MANIFEST.json
from the contracts' always_standin tables and (b) the per-property table of DESIGN.md 0.1 from the evidence files."""
import json, os, re, sys
HERE = os.path.dirname(os.path.dirname(os.path.abspath(__file__)))
sys.path.insert(0, HERE)
from pyvc import run
from replay import realisers as R

w = run.load_world()
m = json.load(open(os.path.join(HERE, "MANIFEST.json")))
TAIL = " In addition the harness of every function whose source differs from the recorded tree is run, and the thorough tier runs every registered harness."
harness_names = {}
for c in m["checks"]:
    p = c["property_id"]
    note = c.get("level_note", "")
    note = re.sub(r"\s*Always-run bounded stand-ins \(scenario harnesses on the real code, never counted as proved\):.*$", "", note, flags=re.S).rstrip()
    note = note.replace(TAIL.strip(), "").rstrip()
    items = w.always_standin.get(p, [])
    names = []
    for fn, why in items:
        r = R.find(fn)
        nm = getattr(r, "__name__", "harness")
        names.append(nm if nm.startswith("r_") else None)
    harness_names[p] = items
    if items:
        note += " Always-run bounded stand-ins (scenario harnesses on the real code, never counted as proved): " + "; ".join(
            "%s [%s]" % (fn.split("::")[-1], why[:90]) for fn, why in items) + "." + TAIL
    else:
        note += TAIL
    c["level_note"] = note.strip()
json.dump(m, open(os.path.join(HERE, "MANIFEST.json"), "w"), indent=1)
# DESIGN table
d = open(os.path.join(HERE, "DESIGN.md")).read()
for c in m["checks"]:
    p = c["property_id"]
    ev = json.load(open(os.path.join(HERE, "evidence", p + ".json")))
    cov = ev["coverage"]
    nf = len(cov.get("functions_under_contract", cov.get("functions", [])) or [])
    row = re.search(r"^\| %s \| [^\n]*$" % p, d, flags=re.M)
    if not row:
        continue
    cells = [x.strip() for x in row.group(0).strip("|").split("|")]
    cells[1] = str(cov.get("obligations", cells[1]))
    cells[2] = str(cov.get("verification_conditions", cells[2]))
    if nf:
        cells[3] = str(nf)
    d = d.replace(row.group(0), "| " + " | ".join(cells) + " |")
open(os.path.join(HERE, "DESIGN.md"), "w").write(d)
print("synced")
