#!/bin/sh
# tools/import_seed2.sh PROP BASE : copy /tmp/${SEEDDIR:-seed2}-PROP/{1,2} to seeded/PROP-(BASE+1), PROP-(BASE+2) and test them
p=$1; b=$2
for i in 1 2; do
  n=$((b+i)); mkdir -p /verif/seeded/$p-$n
  cp /tmp/${SEEDDIR:-seed2}-$p/$i/patch.diff /tmp/${SEEDDIR:-seed2}-$p/$i/demo.py /tmp/${SEEDDIR:-seed2}-$p/$i/notes.md /verif/seeded/$p-$n/ 2>/dev/null
  (cd /verif && python3 tools/seedtest.py $p seeded/$p-$n/patch.diff > /var/tmp/seed_$p-$n.log 2>&1)
  echo "== $p-$n"; grep -v "not-generated" /var/tmp/seed_$p-$n.log | grep "^check\|VIOL\|^OK\|UNDEC\|PATCH" | cut -c1-260
done
