#!/usr/bin/env python3
"""tools/seedtest.py PROP[,PROP] PATCH [--demo demo.py]: apply a patch to a scratch worktree of /repo, run
./check PROP --repo <scratch>, optionally the demonstration with and without the patch; clean up."""
import os, subprocess, sys, tempfile
props, patch = sys.argv[1], os.path.abspath(sys.argv[2])
demo = sys.argv[sys.argv.index("--demo") + 1] if "--demo" in sys.argv else None
d = tempfile.mkdtemp(prefix="pyvc-seed-", dir="/var/tmp"); os.rmdir(d)
subprocess.run(["git", "-C", "/repo", "worktree", "add", "-q", "--detach", d, "HEAD"], check=True)
try:
    if demo:
        r = subprocess.run(["/venv/bin/python", os.path.abspath(demo), d], cwd=d, env=dict(os.environ, PYTHONPATH=d), capture_output=True, text=True)
        print("demo without patch: exit", r.returncode)
    r = subprocess.run(["git", "-C", d, "apply", patch], capture_output=True, text=True)
    if r.returncode:
        print("PATCH FAILED", r.stderr); sys.exit(9)
    if demo:
        r = subprocess.run(["/venv/bin/python", os.path.abspath(demo), d], cwd=d, env=dict(os.environ, PYTHONPATH=d), capture_output=True, text=True)
        print("demo with patch: exit", r.returncode, (r.stdout + r.stderr).strip().splitlines()[-1:] )
    if "--tests" in sys.argv:
        r = subprocess.run("cd %s && PYTHONPATH=%s /venv/bin/python -m pytest -q -p no:cacheprovider 2>&1 | tail -1" % (d, d), shell=True, capture_output=True, text=True)
        print("TESTS:", r.stdout.strip())
    for pr in props.split(","):
        r = subprocess.run(["./check", pr, "--repo", d], cwd="/verif", capture_output=True, text=True)
        print("check %s exit=%d" % (pr, r.returncode))
        print("\n".join(l[:260] for l in (r.stdout + r.stderr).strip().splitlines()[-6:]))
finally:
    subprocess.run(["git", "-C", "/repo", "worktree", "remove", "--force", d])
