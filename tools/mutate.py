#!/usr/bin/env python3
"""tools/mutate.py PROP FILE OLD NEW [--tests]: apply a textual mutation to a scratch worktree of
/repo (under /var/tmp), run ./check PROP against it, optionally the baseline tests, and clean up."""
import os, subprocess, sys, shutil, tempfile
prop, rel, old, new = sys.argv[1:5]
run_tests = "--tests" in sys.argv
d = tempfile.mkdtemp(prefix="pyvc-mut-", dir="/var/tmp")
os.rmdir(d)
subprocess.run(["git", "-C", "/repo", "worktree", "add", "-q", "--detach", d, "HEAD"], check=True)
try:
    p = os.path.join(d, rel)
    s = open(p).read()
    old = old.encode().decode("unicode_escape"); new = new.encode().decode("unicode_escape")
    if old not in s:
        print("PATTERN NOT FOUND"); sys.exit(9)
    open(p, "w").write(s.replace(old, new, 1))
    if run_tests:
        r = subprocess.run("cd %s && /venv/bin/python -m pytest -q -p no:cacheprovider -x 2>&1 | tail -2" % d, shell=True, capture_output=True, text=True)
        print("TESTS:", r.stdout.strip().splitlines()[-1] if r.stdout.strip() else r.stderr[-200:])
    for pr in prop.split(","):
        r = subprocess.run(["./check", pr, "--repo", d], cwd="/verif", capture_output=True, text=True)
        print("check %s exit=%d" % (pr, r.returncode))
        print("\n".join(l[:300] for l in (r.stdout + r.stderr).strip().splitlines()[-8:]))
finally:
    subprocess.run(["git", "-C", "/repo", "worktree", "remove", "--force", d])
