#!/usr/bin/env python3-vt
import sys, time
sys.path.insert(0, '/verif')
from pyvc.run import run_property
prop = sys.argv[1]
r = run_property(prop)
for u in r['undecided']: print("UNDECIDED", u)
for name, ob in sorted(r['obligations'].items()):
    st = ob.status
    print("%-11s %-60s vcs=%d t=%.2fs %s" % (st, name, len(ob.vcs), sum(v.time for v in ob.vcs), set(v.backend for v in ob.vcs)))
    if st != 'discharged':
        for v in ob.vcs:
            if v.status != 'unsat':
                print("     ", v.status, "site", v.site, "note:", v.note[:150]); print("      model:", {k:v2 for k,v2 in (v.model or {}).items() if not k.startswith('choice')})
                break
for a in r['ast']: print("AST", a['name'], a['ok'], a['detail'] if not a['ok'] else '')
print("canaries", r['canaries'])
print("paths", r['npaths'], "wall %.1fs" % r['wall_s'])
