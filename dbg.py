#!/usr/bin/env python3-vt
import sys, time
sys.path.insert(0, '/verif')
from pyvc.run import run_property
prop = sys.argv[1]
r = run_property(prop)
for u in r['undecided']: print("UNDECIDED", u)
for t, e in r['errors']: print("ERROR", t, e[-400:])
for name, ob in sorted(r['obligations'].items()):
    st = ob.status
    print("%-11s %-60s vcs=%d t=%.2fs %s" % (st, name, len(ob.vcs), sum(v.time for v in ob.vcs), set(v.backend for v in ob.vcs)))
    if st != 'discharged':
        for v in ob.vcs:
            if v.status != 'unsat':
                print("     ", v.status, "site", v.site, "note:", v.note[:150]); print("      model:", {k:v2 for k,v2 in (v.model or {}).items() if not k.startswith('choice')})
                break
for a in r['ast']: print("AST", a['name'], a['ok'], a['detail'] if not a['ok'] else '')
can={}
for c in r['canaries']: can.setdefault(c['function'],[]).append(c['status'])
print("canaries not refuted:", [f for f,s in can.items() if 'sat' not in s])
for f in r['functions']: print("  fn %-90s paths=%d vcs=%d wall=%.1f covers=%s" % (f['function'], f['paths'], f['vcs'], f.get('wall_s',0), f.get('covers_self_classes')))
print("paths", r['npaths'], "wall %.1fs" % r['wall_s'])
