"""pyvc symbolic executor: Python AST (stated subset) -> per-path verification conditions.

Path enumeration is by re-execution: `branch(cond)` consults a recorded decision
prefix, so forking may happen anywhere (inside an expression, a builtin model or a
contract clause).  Each path carries a path condition `pc` (list of z3 Bools).
Obligations are recorded as (name, pc, goal) and discharged later by solve.py.
"""
import ast
import itertools

import z3

from .values import *  # noqa
from . import rx
from . import strlemmas
from .abstract import abstract
from .extract import strip_dropped


UNSET = object()
DELETED = object()  # tombstone in VDict.overrides


class PathEnd(Exception):
    """Path cut: infeasible, assumption false, or end of a loop body under invariant."""


class OutOfSubset(Exception):
    pass


class NeedFork(Exception):
    """Raised inside eval_merged when the computation has to decide (and remember) a fact about the pre-state, such as
    whether an optional attribute was set at entry: merging would evaluate the alternatives on shared object state and
    silently keep only the first; the caller's path is forked instead."""


class Raised(Exception):
    def __init__(self, exc, site=None):
        self.exc = exc
        self.site = site


class ReturnEx(Exception):
    def __init__(self, value):
        self.value = value


class BreakEx(Exception):
    pass


class ContinueEx(Exception):
    pass


# ---- exception lattice ----------------------------------------------------------
EXC_PARENT = {
    "BaseException": None,
    "Exception": "BaseException",
    "OSError": "Exception",
    "IOError": "OSError",  # alias, handled in exc_isa
    "FileNotFoundError": "OSError",
    "PermissionError": "OSError",
    "BrokenPipeError": "ConnectionError",
    "ConnectionResetError": "ConnectionError",
    "ConnectionError": "OSError",
    "TimeoutError": "OSError",
    "LookupError": "Exception",
    "KeyError": "LookupError",
    "IndexError": "LookupError",
    "ValueError": "Exception",
    "UnicodeError": "ValueError",
    "UnicodeEncodeError": "UnicodeError",
    "UnicodeDecodeError": "UnicodeError",
    "TypeError": "Exception",
    "AttributeError": "Exception",
    "StopIteration": "Exception",
    "EOFError": "Exception",
    "RuntimeError": "Exception",
    "NotImplementedError": "RuntimeError",
    "AssertionError": "Exception",
    "ImportError": "Exception",
    "UnpicklingError": "Exception",
    "NoSuchMailboxError": "Exception",
    "ZeroDivisionError": "Exception",
    "NameError": "Exception",
    "UnboundLocalError": "NameError",
}
EXC_ALIAS = {"IOError": "OSError", "EnvironmentError": "OSError", "socket.timeout": "TimeoutError", "socket.error": "OSError"}


def exc_canon(n):
    return EXC_ALIAS.get(n, n)


def exc_isa(n, base):
    n = exc_canon(n)
    base = exc_canon(base)
    seen = 0
    while n is not None and seen < 50:
        if n == base:
            return True
        n = exc_canon(EXC_PARENT.get(n)) if EXC_PARENT.get(n) else None
        seen += 1
    return False


class PC(list):
    """Path condition: a list of z3 Bools mirrored lazily into one incremental solver."""

    def __init__(self, eng):
        super().__init__()
        self.eng = eng
        self._solver = None
        self._fed = 0
        self._keys = [0]
        self.axkeys = {}

    def need_axioms(self, key):
        """True exactly once per path position: the instance axioms `key` stands for are not yet part of the
        path condition (they may have been assumed inside a merged sub-evaluation and discarded with it)."""
        if key in self.axkeys:
            return False
        self.axkeys[key] = len(self)
        return True

    def append(self, c):
        super().append(c)
        self.eng.keepalive.append(c)
        self._keys.append(hash((self._keys[-1], c.get_id())))

    def key(self):
        # the list may have been truncated by reset_to
        del self._keys[len(self) + 1:]
        return self._keys[len(self)]

    def mark(self):
        s = self.solver()
        s.push()
        return len(self)

    def reset_to(self, mark, pop=True):
        del self[mark:]
        del self._keys[mark + 1:]
        for k in [k for k, p in self.axkeys.items() if p >= mark]:
            del self.axkeys[k]
        if self._solver is not None:
            # everything fed after the mark lives in the pushed scope
            self._solver.pop()
            self._fed = mark
            if not pop:
                self._solver.push()

    def solver(self):
        """Incremental solver over the string-free abstraction of the path condition."""
        if self._solver is None:
            self._solver = z3.Solver()
            self._solver.set("timeout", self.eng.feas_timeout)
            self._fed = 0
        while self._fed < len(self):
            self._solver.add(abstract(self[self._fed]))
            self._fed += 1
        return self._solver

    def side_fed(self):
        return getattr(self, "_side", 0)


class _MergeAbort(Exception):
    pass


class VC:
    def __init__(self, name, pc, goal, kind, site, path, note=""):
        self.name = name
        self.pc = pc
        self.goal = goal
        self.kind = kind
        self.site = site
        self.path = path
        self.note = note
        self.status = None
        self.backend = None
        self.time = 0.0
        self.model = None
        self.smt2 = None


class Frame:
    def __init__(self, fi, selfcls, locals_, module):
        self.fi = fi
        self.selfcls = selfcls
        self.locals = locals_
        self.module = module  # relfile
        self.globals_decl = set()
        self.loop_ord = itertools.count()
        self.contract = None
        self.old = None


class Engine:
    """Runs one *target* (a function with a given class of `self`) on all paths."""

    def __init__(self, world, target_name):
        self.world = world  # registry.World: repo, contracts, spec, externals
        self.target_name = target_name
        self.vcs = {}
        self.npaths = 0
        self.feas_timeout = int(__import__('os').environ.get('PYVC_FEAS_MS', '400'))
        self.assumptions_used = set()
        self.inlined = set()
        self.lemmas_used = set()
        self.at_hits = set()
        self.feas_cache = {}
        self.keepalive = []
        self.safe_terms = set()
        self.callees_by_contract = set()
        self.stats = {"stmts": 0, "dropped": 0}
        self.max_paths = 4000
        self.no_branch = False

    # ---- path driver -------------------------------------------------------------
    salvage = False
    incomplete = None
    nincomplete = 0

    def run_all(self, body_fn):
        """body_fn(self) executes the target once along the current decision prefix."""
        self.decisions = []
        while True:
            self.pos = 0
            self.pc = PC(self)
            self.fresh_ctr = {}
            self.site_ctr = {}
            self.ghost = {}
            self.npaths += 1
            if self.npaths > self.max_paths:
                raise OutOfSubset("more than %d paths" % self.max_paths)
            try:
                body_fn(self)
            except PathEnd:
                pass
            except OutOfSubset as e:
                # this path left the subset: the function as a whole is undecided, but the other paths are still
                # explored - an obligation refuted on a path that was executed completely is a genuine refutation
                if not self.salvage:
                    raise
                self.incomplete = self.incomplete or str(e)
                self.nincomplete += 1
                if self.nincomplete > 50:
                    raise
            # backtrack
            while self.decisions and not self.decisions[-1][1]:
                self.decisions.pop()
            if not self.decisions:
                break
            d = self.decisions[-1]
            d[0] = not d[0]
            d[1] = False

    def feasible(self, extra):
        ck = (self.pc.key(), extra.get_id())
        r = self.feas_cache.get(ck)
        if r is not None:
            return r
        self.keepalive.append(extra)
        r = self._feasible(extra)
        self.feas_cache[ck] = r
        return r

    def _feasible(self, extra):
        from . import abstract as A
        s = self.pc.solver()
        s.push()
        try:
            s.add(abstract(extra))
            for c in A.SIDE:
                s.add(c)
            return s.check() != z3.unsat
        finally:
            s.pop()

    def branch(self, cond):
        """Decide a Python-level boolean.  cond: bool | z3 Bool."""
        if isinstance(cond, bool):
            return cond
        cond = z3.simplify(cond)
        if z3.is_true(cond):
            return True
        if z3.is_false(cond):
            return False
        if self.no_branch:
            raise OutOfSubset("branch on %s inside a quantified context" % cond)
        if self.pos < len(self.decisions):
            val = self.decisions[self.pos][0]
        else:
            ft = self.feasible(cond)
            ff = self.feasible(z3.Not(cond))
            if ft and ff:
                val = True
                self.decisions.append([True, True])
            elif ft:
                val = True
                self.decisions.append([True, False])
            elif ff:
                val = False
                self.decisions.append([False, False])
            else:
                raise PathEnd()
        self.pos += 1
        self.pc.append(cond if val else z3.Not(cond))
        return val

    def eval_merged(self, thunk):
        """Evaluate a pure scalar computation (a contract clause, a spec function) on all of its
        internal paths and merge the results into one if-then-else term, instead of forking the
        caller's path.  Falls back to ordinary forking when a sub-path raises or the result is not
        a scalar."""
        if self.no_branch:
            return thunk()
        outer_dec, outer_pos = self.decisions, self.pos
        self.merge_depth = getattr(self, "merge_depth", 0) + 1
        base_ctr, base_site = dict(self.fresh_ctr), dict(self.site_ctr)
        base_len = self.pc.mark()
        results = []
        local = []
        ok = True
        max_ctr = dict(base_ctr)
        nsub = 0
        try:
            while True:
                nsub += 1
                if nsub > 400:
                    ok = False
                    break
                self.decisions, self.pos = local, 0
                self.fresh_ctr, self.site_ctr = dict(base_ctr), dict(base_site)
                try:
                    v = thunk()
                    if isinstance(v, VOpt):
                        v = self.force(v)
                    results.append((list(self.pc[base_len:]), v))
                except PathEnd:
                    pass
                except (Raised, ReturnEx, BreakEx, ContinueEx, NeedFork):
                    ok = False
                for k, val in self.fresh_ctr.items():
                    if val > max_ctr.get(k, 0):
                        max_ctr[k] = val
                self.pc.reset_to(base_len, pop=False)
                if not ok:
                    break
                while local and not local[-1][1]:
                    local.pop()
                if not local:
                    break
                local[-1][0] = not local[-1][0]
                local[-1][1] = False
        finally:
            self.merge_depth -= 1
            self.pc.reset_to(base_len, pop=True)
            self.decisions, self.pos = outer_dec, outer_pos
            self.site_ctr = base_site
            self.fresh_ctr = max_ctr if ok else base_ctr
        if ok:
            merged = self._merge(results)
            if merged is not None:
                return merged
            self.fresh_ctr = base_ctr
        return thunk()

    def _merge(self, results):
        if not results:
            raise PathEnd()
        if len(results) == 1:
            for c in results[0][0]:
                self.pc.append(c)
            return results[0][1]
        vals = [v for _, v in results]
        guards = [z3.And(*g) if len(g) > 1 else (g[0] if g else z3.BoolVal(True)) for g, _ in results]
        if all(isinstance(v, bool) or z3.is_bool(v) for v in vals):
            vals = [VBool(v) for v in vals]
            asbool = True
        else:
            asbool = False
        def ite(mk):
            t = mk(vals[-1])
            for g, v in zip(reversed(guards[:-1]), reversed(vals[:-1])):
                t = z3.If(g, mk(v), t)
            return t
        out = None
        if all(isinstance(v, VBool) for v in vals):
            out = VBool(z3.simplify(ite(lambda v: zbool(v.z))))
        elif all(isinstance(v, VInt) for v in vals):
            out = VInt(ite(lambda v: zint(v.z)))
        elif all(isinstance(v, VStr) for v in vals) and len({v.isbytes for v in vals}) == 1:
            out = VStr(ite(lambda v: zstr(v.z)), vals[0].isbytes)
        elif all(v is NONE for v in vals):
            out = NONE
        elif all(isinstance(v, VBool) or not isinstance(v, V) for v in vals):
            out = None
        if out is None:
            return None
        self.pc.append(z3.Or(*guards))
        if asbool:
            return out.z
        return out

    def branch_fresh(self, hint):
        """Branch on a brand-new Boolean (pure nondeterminism): both sides are feasible by construction."""
        b = z3.Bool(self.fresh_name(hint))
        if self.no_branch:
            raise OutOfSubset("nondeterministic choice inside a quantified context")
        if self.pos < len(self.decisions):
            val = self.decisions[self.pos][0]
        else:
            val = True
            self.decisions.append([True, True])
        self.pos += 1
        self.pc.append(b if val else z3.Not(b))
        return val

    def implied_int(self, term):
        """The integer value the path condition forces `term` to have, or None."""
        t = z3.simplify(term)
        if z3.is_int_value(t):
            return t.as_long()
        for c in reversed(self.pc):
            if z3.is_eq(c):
                a, b = c.children()
                if z3.is_int_value(b) and a.eq(t):
                    return b.as_long()
                if z3.is_int_value(a) and b.eq(t):
                    return a.as_long()
        s = self.pc.solver()
        ta = abstract(t)
        s.push()
        try:
            if s.check() != z3.sat:
                return None
            v = s.model().eval(ta, model_completion=True)
            if not z3.is_int_value(v):
                return None
            s.add(ta != v)
            if s.check() == z3.unsat:
                return v.as_long()
            return None
        finally:
            s.pop()

    def choose(self, n, label=""):
        """Nondeterministic choice among n alternatives (returns index)."""
        for i in range(n - 1):
            if self.branch_fresh("choice_%s_%d" % (label, i)):
                return i
        return n - 1

    def assume(self, cond):
        if isinstance(cond, bool):
            if not cond:
                raise PathEnd()
            return
        cond = z3.simplify(cond)
        if z3.is_true(cond):
            return
        if z3.is_false(cond):
            raise PathEnd()
        self.pc.append(cond)

    def fresh_name(self, hint):
        n = self.fresh_ctr.get(hint, 0)
        self.fresh_ctr[hint] = n + 1
        return "%s!%d" % (hint, n) if n else hint

    def oblige(self, name, goal, kind="ensures", site=None, note=""):
        if isinstance(goal, bool):
            goal = z3.BoolVal(goal)
        goal = z3.simplify(goal)
        key = (name, tuple(d[0] for d in self.decisions[: self.pos]), self._site(name))
        if key in self.vcs:
            return
        self.vcs[key] = VC(name, list(self.pc), goal, kind, site, key[1], note)

    def _site(self, name):
        n = self.site_ctr.get(name, 0)
        self.site_ctr[name] = n + 1
        return n

    # ---- symbolic value construction ----------------------------------------------
    def fresh(self, ty, hint):
        """Create a fresh symbolic value of declared type `ty` (string grammar)."""
        ty = ty.strip()
        if ty == "int":
            return VInt(z3.Int(self.fresh_name(hint)))
        if ty == "nat":
            v = z3.Int(self.fresh_name(hint))
            self.assume(v >= 0)
            return VInt(v)
        if ty == "real":
            return VReal(z3.Real(self.fresh_name(hint)))
        if ty == "bool":
            return VBool(z3.Bool(self.fresh_name(hint)))
        if ty == "str":
            return VStr(z3.String(self.fresh_name(hint)))
        if ty == "bytes":
            s = z3.String(self.fresh_name(hint))
            self.assume(z3.InRe(s, z3.Star(z3.Range(z3.StringVal("\x00"), z3.StringVal("\xff")))))
            return VStr(s, True)
        if ty == "none":
            return NONE
        if ty.startswith("const:"):
            return VStr(ty[6:])
        if ty.startswith("opt[") and ty.endswith("]"):
            inner = self.fresh(ty[4:-1], hint)
            return VOpt(z3.Bool(self.fresh_name(hint + "_isnone")), inner)
        if ty.startswith("list[") and ty.endswith("]"):
            et = ty[5:-1]
            n = z3.Int(self.fresh_name(hint + "_len"))
            self.assume(n >= 0)
            return self.symlist(n, et, hint)
        if ty.startswith("tuple[") and ty.endswith("]"):
            parts = _split_top(ty[6:-1])
            return VTuple([self.fresh(p, "%s_%d" % (hint, i)) for i, p in enumerate(parts)])
        if ty == "stat":
            return VTuple([VInt(z3.Int(self.fresh_name("%s_st%d" % (hint, i)))) for i in range(10)])
        if ty.startswith("dict[") and ty.endswith("]"):
            parts = _split_top(ty[5:-1])
            return VDict({}, sym=(self.fresh_name(hint), parts[1].strip()), valty=parts[1].strip())
        if ty.startswith("obj:"):
            cls = ty[4:]
            o = VObj(cls, name=self.fresh_name(hint))
            ftypes = self.world.field_types(cls)
            o.fieldty = dict(ftypes)
            return o
        if ty.startswith("opaque:"):
            tag = ty[7:]
            return VOpaque(tag, z3.Const(self.fresh_name(hint), U))
        if ty.startswith("class:"):
            return VClass(ty[6:])
        if ty.startswith("either[") and ty.endswith("]"):
            # untagged union: one path per alternative
            alts = _split_top(ty[7:-1])
            for i, a in enumerate(alts[:-1]):
                if self.branch_fresh("%s_is_alt%d" % (hint, i)):
                    return self.fresh(a, hint)
            return self.fresh(alts[-1], hint)
        raise OutOfSubset("unknown type %r" % ty)

    def symlist(self, n, elemty, hint):
        cache = {}
        base = self.fresh_name(hint + "_elem")
        eng = self

        def get(i):
            # one record per index *term*; normalised so that n - 1 and -1 + n name the same element
            iz = zint(i)
            key = str(z3.simplify(iz)) if not isinstance(iz, int) else str(iz)
            if key not in cache:
                cache[key] = eng._elem(base, elemty, i)
            return cache[key]

        return VList(None, n, get, elemty)

    def _elem(self, base, elemty, i):
        """Element i of a symbolic list = application of an uninterpreted function."""
        i = zint(i)
        if elemty == "str":
            f = z3.Function(base, z3.IntSort(), z3.StringSort())
            return VStr(f(i))
        if elemty == "int":
            f = z3.Function(base, z3.IntSort(), z3.IntSort())
            return VInt(f(i))
        if elemty.startswith("opaque:"):
            f = z3.Function(base, z3.IntSort(), U)
            return VOpaque(elemty[7:], f(i))
        if elemty.startswith("class:"):
            return VClass(elemty[6:])
        if elemty.startswith("obj:"):
            # objects in symbolic lists: one record per *syntactic* index term
            o = VObj(elemty[4:], name="%s[%s]" % (base, i))
            o.fieldty = dict(self.world.field_types(elemty[4:]))
            o.symkey = (base, i)
            return o
        if elemty.startswith(("dict[", "tuple[", "opt[", "either[", "list[")):
            # structured elements: one fresh value per syntactic index term (cached by the caller)
            return self.fresh(elemty, "%s[%s]" % (base, z3.simplify(i)))
        raise OutOfSubset("list element type %r" % elemty)

    # ---- truthiness / forcing -------------------------------------------------------
    def force(self, v):
        while isinstance(v, VOpt):
            if self.branch(v.isnone):
                return NONE
            v = v.inner
        return v

    def truth(self, v):
        """Python truthiness as bool | z3 Bool (does not branch)."""
        v = self.force(v)
        if v is NONE:
            return False
        if isinstance(v, VBool):
            return v.z
        if isinstance(v, VInt):
            return (v.z != 0) if not is_conc(v.z) else (v.z != 0)
        if isinstance(v, VReal):
            return v.z != 0
        if isinstance(v, VStr):
            if is_conc(v.z):
                return len(v.z) > 0
            return z3.Length(v.z) > 0
        if isinstance(v, VList):
            if v.concrete():
                return len(v.items) > 0
            return v.n > 0
        if isinstance(v, VTuple):
            return len(v.items) > 0
        if isinstance(v, VDict):
            if v.sym is None and not v.overrides:
                return len(v.items) > 0
            if v.items:
                return True
            return z3.Bool(self.fresh_name("dict_nonempty"))
        if isinstance(v, (VObj, VClass, VFunc, VModule, VExc)):
            return True
        if isinstance(v, VOpaque):
            if "truth" in v.attrs:
                return v.attrs["truth"]
            return True
        raise OutOfSubset("truth of %r" % (v,))

    def is_true(self, v):
        return self.branch(self.truth(v))

    # ---- equality ---------------------------------------------------------------------
    def eq(self, a, b):
        """Python == as bool | z3 Bool."""
        a = self.force(a)
        b = self.force(b)
        if a is NONE or b is NONE:
            return a is b
        if isinstance(a, (VInt, VBool, VReal)) and isinstance(b, (VInt, VBool, VReal)):
            az, bz = self.num(a), self.num(b)
            r = az == bz
            return r if isinstance(r, bool) else r
        if isinstance(a, VStr) and isinstance(b, VStr):
            if a.isbytes != b.isbytes:
                return False
            if is_conc(a.z) and is_conc(b.z):
                return a.z == b.z
            return zstr(a.z) == zstr(b.z)
        if isinstance(a, VTuple) and isinstance(b, VTuple):
            if len(a.items) != len(b.items):
                return False
            return self.and_([self.eq(x, y) for x, y in zip(a.items, b.items)])
        if isinstance(a, VList) and isinstance(b, VList):
            if a.concrete() and b.concrete():
                if len(a.items) != len(b.items):
                    return False
                return self.and_([self.eq(x, y) for x, y in zip(a.items, b.items)])
            if a is b:
                return True
            return self.list_eq(a, b)
        if isinstance(a, VOpaque) and isinstance(b, VOpaque):
            if a.z is not None and b.z is not None:
                return a.z == b.z
            return a is b
        if isinstance(a, VClass) and isinstance(b, VClass):
            return a.name == b.name
        if isinstance(a, VObj) and isinstance(b, VObj):
            return a is b
        if isinstance(a, VDict) and isinstance(b, VDict):
            if a is b:
                return True
            if _ident(a) is _ident(b) and a.items == b.items and a.overrides == b.overrides:
                return True
            raise OutOfSubset("equality of distinct dict values")
        if type(a) is not type(b):
            return False
        return a is b

    def list_eq(self, a, b):
        """Extensional equality of lists: equal lengths and equal elements at every index
        (universally quantified index)."""
        an, bn = zint(self.list_len(a)), zint(self.list_len(b))
        i = z3.Int(self.fresh_name("qi"))
        saved = self.no_branch
        self.no_branch = True
        try:
            ea = self.list_get(a, i) if not a.concrete() else None
            eb = self.list_get(b, i) if not b.concrete() else None
            if ea is None or eb is None:
                # one side concrete: compare element by element
                conc, sym = (a, b) if a.concrete() else (b, a)
                parts = [zint(self.list_len(sym)) == len(conc.items)]
                for j, x in enumerate(conc.items):
                    parts.append(zbool(self.eq(x, self.list_get(sym, j))))
                return z3.And(*parts)
            body = zbool(self.eq(ea, eb))
        finally:
            self.no_branch = saved
        return z3.And(an == bn, z3.ForAll([i], z3.Implies(z3.And(i >= 0, i < an), body)))

    def num(self, v):
        if isinstance(v, VBool):
            if is_conc(v.z):
                return int(v.z)
            return z3.If(v.z, 1, 0)
        return v.z

    def and_(self, xs):
        out = []
        for x in xs:
            if isinstance(x, bool):
                if not x:
                    return False
                continue
            out.append(x)
        if not out:
            return True
        return z3.And(*out) if len(out) > 1 else out[0]

    def or_(self, xs):
        out = []
        for x in xs:
            if isinstance(x, bool):
                if x:
                    return True
                continue
            out.append(x)
        if not out:
            return False
        return z3.Or(*out) if len(out) > 1 else out[0]

    def not_(self, x):
        if isinstance(x, bool):
            return not x
        return z3.Not(x)

    # ---- raising ------------------------------------------------------------------------
    def raise_(self, cls, *args, site=None, attrs=None):
        raise Raised(VExc(cls, list(args), attrs), site)

    # ---- statements -------------------------------------------------------------------
    def exec_block(self, stmts, fr):
        stmts, nd = strip_dropped(stmts)
        for st in stmts:
            self.exec_stmt(st, fr)

    def exec_stmt(self, st, fr):
        m = getattr(self, "st_" + type(st).__name__, None)
        if m is None:
            raise OutOfSubset("statement %s at line %d" % (type(st).__name__, st.lineno))
        r = m(st, fr)
        c = fr.contract
        if c is not None and getattr(c, "at", None) and self.frame_stack and fr is self.frame_stack[0]:
            text = ast.unparse(st).split("\n")[0]
            acts = []
            for k, v in c.at.items():
                if (k.startswith("after:") and k[6:] == text) or (k.startswith("after~") and k[6:] in text):
                    acts.extend((k, a) for a in v)
            for key, act in acts:
                self.at_hits.add(key)
                if act[0] == "ghost":
                    self.ghost[act[1]] = self.eval_str(act[2], fr)
                elif act[0] == "lemma":
                    # instantiate a (separately proved) lemma at the current values
                    self.world.use_lemma(self, act[1], act[2], fr)
                else:
                    nm = "%s.at[%s][%s]" % (self.cur_label, key[6:][:40], act[1][:50])
                    self.oblige(nm, self.world_clause(act[1], fr), kind="assert", site=st.lineno, note=act[1])
        return r

    def world_clause(self, cl, fr):
        try:
            return self.eval_merged(lambda: self.truth(self.eval_str(cl, fr)))
        except Raised:
            return False

    def st_Pass(self, st, fr):
        pass

    def st_Global(self, st, fr):
        fr.globals_decl.update(st.names)

    def st_Import(self, st, fr):
        for a in st.names:
            fr.locals[(a.asname or a.name).split(".")[0]] = VModule(a.name.split(".")[0] if not a.asname else a.name)

    def st_ImportFrom(self, st, fr):
        for a in st.names:
            fr.locals[a.asname or a.name] = self.world.resolve_from_import(self, st.module, a.name)

    def st_Expr(self, st, fr):
        self.eval(st.value, fr)

    def st_Assert(self, st, fr):
        v = self.eval(st.test, fr)
        if not self.is_true(v):
            self.raise_("AssertionError", site=st.lineno)

    def st_Return(self, st, fr):
        raise ReturnEx(self.eval(st.value, fr) if st.value is not None else NONE)

    def st_Break(self, st, fr):
        raise BreakEx()

    def st_Continue(self, st, fr):
        raise ContinueEx()

    def st_Assign(self, st, fr):
        v = self.eval(st.value, fr)
        for t in st.targets:
            self.assign(t, v, fr)

    def st_AnnAssign(self, st, fr):
        if st.value is not None:
            self.assign(st.target, self.eval(st.value, fr), fr)

    def st_AugAssign(self, st, fr):
        load = _as_load(st.target)
        cur = self.eval(load, fr)
        v = self.binop(st.op, cur, self.eval(st.value, fr), st)
        self.assign(st.target, v, fr)

    def assign(self, t, v, fr):
        if isinstance(t, ast.Name):
            if t.id in fr.globals_decl:
                self.world.set_global(self, fr.module, t.id, v)
            else:
                fr.locals[t.id] = v
        elif isinstance(t, (ast.Tuple, ast.List)):
            v = self.force(v)
            if isinstance(v, VList) and v.concrete():
                items = v.items
            elif isinstance(v, VTuple):
                items = v.items
            elif isinstance(v, VList):
                # symbolic list: unpacking requires exact length, else ValueError
                n = len(t.elts)
                if not self.branch(v.n == n):
                    self.raise_("ValueError", site=t.lineno)
                items = [v.get(i) for i in range(n)]
            else:
                raise OutOfSubset("unpack of %r" % (v,))
            if len(items) != len(t.elts):
                self.raise_("ValueError", site=t.lineno)
            for tt, vv in zip(t.elts, items):
                self.assign(tt, vv, fr)
        elif isinstance(t, ast.Attribute):
            obj = self.force(self.eval(t.value, fr))
            self.setattr(obj, t.attr, v, fr, t)
        elif isinstance(t, ast.Subscript):
            obj = self.force(self.eval(t.value, fr))
            idx = self.force(self.eval(t.slice, fr))
            self.setitem(obj, idx, v, t)
        else:
            raise OutOfSubset("assign target %s" % type(t).__name__)

    def setattr(self, obj, attr, v, fr=None, node=None):
        if isinstance(obj, (VObj, VExc)):
            self.world.note_store(self, obj, attr)
            obj.fields[attr] = v
            if isinstance(obj, VObj):
                obj.unset.discard(attr)
                obj.maybe.pop(attr, None)
            return
        if isinstance(obj, VModule):
            self.world.set_module_attr(self, obj, attr, v)
            return
        raise OutOfSubset("setattr on %r" % (obj,))

    def setitem(self, obj, idx, v, node):
        if isinstance(obj, VDict):
            if isinstance(idx, (VStr, VInt)) and is_conc(idx.z):
                obj.items[idx.z] = v
                return
            if isinstance(idx, VStr):
                obj.overrides.append((idx.z, v))
                return
            raise OutOfSubset("dict store with key %r" % (idx,))
        if isinstance(obj, VList) and obj.concrete() and isinstance(idx, VInt) and is_conc(idx.z):
            if not (-len(obj.items) <= idx.z < len(obj.items)):
                self.raise_("IndexError", site=node.lineno)
            obj.items[idx.z] = v
            return
        if isinstance(obj, VList) and not obj.concrete() and isinstance(idx, VInt):
            i = zint(idx.z)
            ok = z3.And(i >= 0, i < obj.n) if not is_conc(idx.z) or idx.z >= 0 else z3.And(i >= -obj.n)
            if not self.branch(ok):
                self.raise_("IndexError", site=node.lineno)
            if is_conc(idx.z) and idx.z < 0:
                raise OutOfSubset("negative store index on symbolic list")
            oldget = obj.get

            def get(j, _i=i, _v=v, _old=oldget):
                jz = zint(j)
                same = z3.simplify(jz == _i)
                if z3.is_true(same):
                    return _v
                if z3.is_false(same):
                    return _old(j)
                raise OutOfSubset("read of symbolic list after symbolic store at unrelated index")

            obj.get = get
            return
        raise OutOfSubset("setitem on %r[%r]" % (obj, idx))

    def _if_merge_targets(self, st):
        """Locations an `if` statement assigns, when it is a pure scalar update (no calls with effects, no
        control transfer); None when the statement is not of that shape."""
        targets = []
        for n in ast.walk(st):
            if isinstance(n, (ast.Return, ast.Raise, ast.Break, ast.Continue, ast.While, ast.For, ast.Try, ast.With, ast.Global, ast.Delete, ast.Import, ast.ImportFrom)):
                return None
            if isinstance(n, ast.Expr) and not isinstance(n.value, ast.Constant):
                return None
            if isinstance(n, (ast.Assign, ast.AugAssign, ast.AnnAssign)):
                ts = n.targets if isinstance(n, ast.Assign) else [n.target]
                for t in ts:
                    if isinstance(t, ast.Name):
                        targets.append(("name", t.id))
                    elif isinstance(t, ast.Attribute) and isinstance(t.value, ast.Name):
                        targets.append(("attr", t.value.id, t.attr))
                    else:
                        return None
        if not targets or not self.is_pure_expr(st):
            return None
        return sorted(set(targets))

    def try_merged_if(self, st, fr):
        targets = self._if_merge_targets(st)
        if targets is None:
            return False
        if any(t[0] == "name" and t[1] in fr.globals_decl for t in targets):
            return False
        MISSING = object()

        def read(t):
            if t[0] == "name":
                return fr.locals.get(t[1], MISSING)
            obj = fr.locals.get(t[1])
            obj = self.force(obj) if isinstance(obj, V) else obj
            if not isinstance(obj, VObj):
                raise OutOfSubset("merge target")
            if t[2] in obj.fields:
                return obj.fields[t[2]]
            if t[2] in obj.fieldty and not getattr(obj, "fresh_alloc", False) and not obj.fieldty[t[2]].startswith("maybe:"):
                return self.getattr(obj, t[2])
            return MISSING

        def write(t, v):
            if t[0] == "name":
                if v is MISSING:
                    fr.locals.pop(t[1], None)
                else:
                    fr.locals[t[1]] = v
            else:
                obj = self.force(fr.locals[t[1]])
                if v is MISSING:
                    obj.fields.pop(t[2], None)
                else:
                    obj.fields[t[2]] = v
                    obj.unset.discard(t[2])

        try:
            pre = [read(t) for t in targets]
        except (OutOfSubset, Raised):
            return False
        results = []

        def thunk():
            for t, v in zip(targets, pre):
                write(t, v)
            try:
                self._st_If_plain(st, fr)
                results.append((None, [read(t) for t in targets]))
            finally:
                pass
            return VBool(True)

        # enumerate the sub-paths by hand (like eval_merged, but collecting tuples)
        outer_dec, outer_pos = self.decisions, self.pos
        self.merge_depth = getattr(self, "merge_depth", 0) + 1
        base_ctr, base_site = dict(self.fresh_ctr), dict(self.site_ctr)
        base_len = self.pc.mark()
        local = []
        ok = True
        max_ctr = dict(base_ctr)
        collected = []
        try:
            n = 0
            while True:
                n += 1
                if n > 64:
                    ok = False
                    break
                self.decisions, self.pos = local, 0
                self.fresh_ctr, self.site_ctr = dict(base_ctr), dict(base_site)
                for t, v in zip(targets, pre):
                    write(t, v)
                try:
                    self._st_If_plain(st, fr)
                    collected.append((list(self.pc[base_len:]), [read(t) for t in targets]))
                except PathEnd:
                    pass
                except (Raised, ReturnEx, BreakEx, ContinueEx, OutOfSubset):
                    ok = False
                for k, val in self.fresh_ctr.items():
                    if val > max_ctr.get(k, 0):
                        max_ctr[k] = val
                self.pc.reset_to(base_len, pop=False)
                if not ok:
                    break
                while local and not local[-1][1]:
                    local.pop()
                if not local:
                    break
                local[-1][0] = not local[-1][0]
                local[-1][1] = False
        finally:
            self.merge_depth -= 1
            self.pc.reset_to(base_len, pop=True)
            self.decisions, self.pos = outer_dec, outer_pos
            self.site_ctr = base_site
            for t, v in zip(targets, pre):
                write(t, v)
        if not ok or not collected:
            self.fresh_ctr = base_ctr
            return False
        # merge every target
        merged = []
        guards = [z3.And(*g) if len(g) > 1 else (g[0] if g else z3.BoolVal(True)) for g, _ in collected]
        for i, t in enumerate(targets):
            vals = [vs[i] for _, vs in collected]
            if any(v is MISSING for v in vals):
                self.fresh_ctr = base_ctr
                return False
            if all(v is vals[0] for v in vals):
                merged.append(vals[0])
                continue
            vals = [self._as_opt_scalar(v) for v in vals]
            if any(v is None for v in vals):
                self.fresh_ctr = base_ctr
                return False
            m = self._merge_scalars(guards, vals)
            if m is None:
                self.fresh_ctr = base_ctr
                return False
            merged.append(m)
        self.fresh_ctr = max_ctr
        if len(collected) == 1:
            for c in collected[0][0]:
                self.pc.append(c)
        else:
            self.pc.append(z3.Or(*guards))
        for t, v in zip(targets, merged):
            write(t, v)
        return True

    def _as_opt_scalar(self, v):
        if isinstance(v, VOpt):
            inner = self._as_opt_scalar(v.inner)
            if inner is None or isinstance(inner, VOpt):
                return None
            return v
        if v is NONE or isinstance(v, (VStr, VInt, VBool)):
            return v
        return None

    def _merge_scalars(self, guards, vals):
        def ite(mk):
            t = mk(vals[-1])
            for g, v in zip(reversed(guards[:-1]), reversed(vals[:-1])):
                t = z3.If(g, mk(v), t)
            return t
        base = [v.inner if isinstance(v, VOpt) else v for v in vals]
        nonnone = [b for b in base if b is not NONE]
        if not nonnone:
            return NONE
        kind = type(nonnone[0])
        if any(type(b) is not kind for b in nonnone):
            return None
        if kind is VStr and len({b.isbytes for b in nonnone}) != 1:
            return None
        dflt = {VStr: z3.StringVal(""), VInt: z3.IntVal(0), VBool: z3.BoolVal(False)}[kind]
        conv = {VStr: zstr, VInt: zint, VBool: zbool}[kind]
        def val_of(v):
            b = v.inner if isinstance(v, VOpt) else v
            return dflt if b is NONE else conv(b.z)
        def none_of(v):
            if v is NONE:
                return z3.BoolVal(True)
            if isinstance(v, VOpt):
                return zbool(v.isnone)
            return z3.BoolVal(False)
        value = ite(val_of)
        if kind is VStr:
            inner = VStr(value, nonnone[0].isbytes)
        elif kind is VInt:
            inner = VInt(value)
        else:
            inner = VBool(value)
        if all(v is not NONE and not isinstance(v, VOpt) for v in vals):
            return inner
        return VOpt(z3.simplify(ite(none_of)), inner)

    def st_Delete(self, st, fr):
        for t in st.targets:
            if isinstance(t, ast.Subscript):
                obj = self.force(self.eval(t.value, fr))
                key = self.force(self.eval(t.slice, fr))
                if isinstance(obj, VDict) and isinstance(key, (VStr, VInt)):
                    if not self.branch(self.dict_has(obj, key)):
                        self.raise_("KeyError", site=st.lineno)
                    if is_conc(key.z) and not obj.overrides and obj.sym is None:
                        obj.items.pop(key.z, None)
                    else:
                        obj.overrides.append((key.z, DELETED))
                    continue
            if isinstance(t, ast.Name) and t.id in fr.locals:
                del fr.locals[t.id]
                continue
            raise OutOfSubset("del of %s" % type(t).__name__)

    def st_If(self, st, fr):
        if not getattr(self, "merge_depth", 0) and not self.no_branch and self.try_merged_if(st, fr):
            return
        self._st_If_plain(st, fr)

    def _st_If_plain(self, st, fr):
        c = self.eval(st.test, fr)
        if self.is_true(c):
            self.exec_block(st.body, fr)
        else:
            self.exec_block(st.orelse, fr)

    def st_Raise(self, st, fr):
        if st.exc is None:
            cur = fr.locals.get("__current_exc__")
            if cur is None:
                raise OutOfSubset("bare raise outside handler")
            raise Raised(cur, st.lineno)
        v = self.force(self.eval(st.exc, fr))
        if isinstance(v, VClass):
            v = VExc(v.name, [])
        if not isinstance(v, VExc):
            raise OutOfSubset("raise of %r" % (v,))
        raise Raised(v, st.lineno)

    def st_Try(self, st, fr):
        try:
            try:
                self.exec_block(st.body, fr)
            except Raised as r:
                handled = False
                for h in st.handlers:
                    if self.handler_matches(h, r.exc, fr):
                        handled = True
                        if h.name:
                            fr.locals[h.name] = r.exc
                        saved = fr.locals.get("__current_exc__")
                        fr.locals["__current_exc__"] = r.exc
                        try:
                            self.exec_block(h.body, fr)
                        finally:
                            fr.locals["__current_exc__"] = saved
                        break
                if not handled:
                    raise
            else:
                self.exec_block(st.orelse, fr)
        finally:
            if st.finalbody:
                # note: a PathEnd passing through is fine, finalbody must not run then
                import sys

                et = sys.exc_info()[0]
                if et is not PathEnd and et is not OutOfSubset:
                    self.exec_block(st.finalbody, fr)

    def handler_matches(self, h, exc, fr):
        if h.type is None:
            return True
        names = []
        if isinstance(h.type, ast.Tuple):
            for e in h.type.elts:
                names.append(_dotted(e))
        else:
            names.append(_dotted(h.type))
        for n in names:
            base = n.split(".")[-1] if n not in EXC_ALIAS else n
            base = exc_canon(base)
            if self.world.exc_isa(exc.cls, base):
                return True
        return False

    def st_With(self, st, fr):
        if len(st.items) != 1:
            raise OutOfSubset("with: multiple items")
        item = st.items[0]
        ctx = self.force(self.eval(item.context_expr, fr))
        res = self.world.ctx_enter(self, ctx)
        if item.optional_vars is not None:
            self.assign(item.optional_vars, res, fr)
        try:
            self.exec_block(st.body, fr)
        except (Raised, ReturnEx, BreakEx, ContinueEx):
            self.world.ctx_exit(self, ctx)
            raise
        self.world.ctx_exit(self, ctx)

    # ---- loops ----------------------------------------------------------------------
    def st_While(self, st, fr):
        ordn = next(fr.loop_ord)
        spec = self.world.loop_spec(fr, ordn, st)
        if spec is None:
            raise OutOfSubset("while loop #%d in %s has no invariant" % (ordn, fr.fi.qualname))
        self.loop_with_invariant(st, fr, spec, ordn, kind="while")

    def st_For(self, st, fr):
        ordn = next(fr.loop_ord)
        it = self.force(self.eval(st.iter, fr))
        spec = self.world.loop_spec(fr, ordn, st)
        # full unrolling over a concrete spine when no invariant is given
        items = None
        if isinstance(it, VList) and it.concrete():
            items = list(it.items)
        elif isinstance(it, VTuple):
            items = list(it.items)
        elif isinstance(it, VDict) and it.sym is None and not it.overrides:
            items = [VStr(k) if isinstance(k, str) else VInt(k) for k in it.items.keys()]
        elif isinstance(it, VStr) and is_conc(it.z):
            items = [VStr(c, it.isbytes) for c in it.z]
        if items is not None and spec is None:
            if st.orelse:
                raise OutOfSubset("for-else")
            for x in items:
                self.assign(st.target, x, fr)
                try:
                    self.exec_block(st.body, fr)
                except BreakEx:
                    break
                except ContinueEx:
                    continue
            return
        if spec is None:
            raise OutOfSubset("for loop #%d in %s over symbolic iterable has no invariant" % (ordn, fr.fi.qualname))
        if not isinstance(it, VList):
            raise OutOfSubset("for with invariant over %r" % (it,))
        self.loop_with_invariant(st, fr, spec, ordn, kind="for", seq=it)

    def loop_with_invariant(self, st, fr, spec, ordn, kind, seq=None):
        fname = fr.fi.name
        label = "%s.loop%d" % (fname, ordn)
        idxname = spec.get("index", "_k")
        if kind == "for":
            fr.locals[idxname] = VInt(0)
            fr.locals["_seq%d" % ordn] = seq
        pre_ghost = {g: self.eval_str(ex, fr) for g, ex in spec.get("entry_ghost", {}).items()}
        for g, v in pre_ghost.items():
            self.ghost[g] = v
        # 1. invariant holds on entry
        for i, inv in enumerate(spec.get("invariant", [])):
            self.oblige("%s.inv_init[%d]" % (label, i), self.eval_merged(lambda inv=inv: self.truth(self.eval_str(inv, fr))), kind="loop-init", site=st.lineno, note=inv)
        # 2. havoc what the loop may modify
        targets = _assigned_names(st)
        for name in spec.get("havoc", []):
            targets.add(name)
        pre = {}
        for name in sorted(targets):
            if name.startswith("self."):
                obj = fr.locals.get("self")
                f = name[5:]
                cur = obj.fields.get(f) if isinstance(obj, VObj) else None
                if cur is None:
                    if isinstance(obj, VObj) and f in obj.fieldty:
                        cur = self.getattr(obj, f, None)
                    else:
                        continue
                pre[name] = cur
                if isinstance(obj, VObj) and f in obj.fieldty and not obj.fieldty[f].startswith(("maybe:", "ghost:")):
                    obj.fields[f] = self.fresh(obj.fieldty[f], "%s_%s" % (label, f))
                else:
                    obj.fields[f] = self.fresh_like(cur, "%s_%s" % (label, f))
            elif "." in name:
                base, f = name.split(".", 1)
                obj = fr.locals.get(base)
                if isinstance(obj, VObj):
                    cur = self.getattr(obj, f, None)
                    obj.fields[f] = self.fresh_like(cur, "%s_%s_%s" % (label, base, f))
            elif name in fr.locals:
                if kind == "for" and name in _target_names(st.target):
                    continue
                pre[name] = fr.locals[name]
                cur = fr.locals[name]
                if name in spec.get("types", {}):
                    fr.locals[name] = self.fresh(spec["types"][name], "%s_%s" % (label, name))
                    continue
                if isinstance(cur, VObj):
                    # an object the loop mutates through method calls: havoc its state in place (identity is kept)
                    for f in list(cur.fields):
                        ty = cur.fieldty.get(f)
                        if ty and not ty.startswith(("maybe:", "ghost:", "obj:", "opaque:")):
                            cur.fields[f] = self.fresh(ty, "%s_%s_%s" % (label, name, f))
                        elif cur.fields[f] is NONE and ty is None:
                            raise OutOfSubset("loop havoc of %s.%s: field is None before the loop and has no declared type" % (name, f))
                        elif isinstance(cur.fields[f], (VStr, VInt, VBool, VReal, VOpt)):
                            cur.fields[f] = self.fresh_like(cur.fields[f], "%s_%s_%s" % (label, name, f))
                    continue
                if cur is NONE or isinstance(cur, VOpt):
                    # the loop may assign a value of another kind: learn it from a sandboxed first iteration
                    ex = self.discover_assigned(st, fr, kind, seq, name)
                    if ex is not None and ex is not NONE:
                        inner = self.fresh_like(ex.inner if isinstance(ex, VOpt) else ex, "%s_%s" % (label, name))
                        fr.locals[name] = VOpt(z3.Bool(self.fresh_name("%s_%s_isnone" % (label, name))), inner)
                        continue
                fr.locals[name] = self.fresh_like(cur, "%s_%s" % (label, name))
            elif name in fr.globals_decl:
                cur = self.world.get_global(self, fr.module, name)
                self.world.set_global(self, fr.module, name, self.fresh_like(cur, "%s_%s" % (label, name)))
        for g in spec.get("havoc_ghost", []):
            self.ghost[g] = self.fresh_like(self.ghost[g], "%s_ghost_%s" % (label, g))
        for g, ex in spec.get("entry_ghost", {}).items():
            # value of an expression when the loop is entered (before the havoc), for use in the invariant
            self.ghost[g] = pre_ghost[g]
        if kind == "for":
            k = z3.Int(self.fresh_name(label + "_k"))
            self.assume(k >= 0)
            self.assume(k <= seq.n if not seq.concrete() else k <= len(seq.items))
            fr.locals[idxname] = VInt(k)
        # 3. assume invariant
        for inv in spec.get("invariant", []):
            self.assume(self.eval_merged(lambda inv=inv: self.truth(self.eval_str(inv, fr))))
        dec0 = None
        if spec.get("decreases"):
            dec0 = self.eval_str(spec["decreases"], fr)
        # 4. loop condition
        if kind == "while":
            c = self.eval(st.test, fr)
            enter = self.is_true(c)
        else:
            n = seq.n if not seq.concrete() else len(seq.items)
            enter = self.branch(fr.locals[idxname].z < n)
        if enter:
            if kind == "for":
                kz = fr.locals[idxname].z
                self.assign(st.target, self.list_get(seq, kz), fr)
            exited = False
            try:
                self.exec_block(st.body, fr)
            except ContinueEx:
                pass
            except BreakEx:
                exited = True
            if not exited:
                if kind == "for":
                    fr.locals[idxname] = VInt(fr.locals[idxname].z + 1)
                for i, inv in enumerate(spec.get("invariant", [])):
                    self.oblige("%s.inv_preserved[%d]" % (label, i), self.eval_merged(lambda inv=inv: self.truth(self.eval_str(inv, fr))), kind="loop-step", site=st.lineno, note=inv)
                if dec0 is not None:
                    dec1 = self.eval_str(spec["decreases"], fr)
                    self.oblige("%s.decreases" % label, z3.And(zint(dec0.z) >= 0, zint(dec1.z) < zint(dec0.z)), kind="termination", site=st.lineno, note=spec["decreases"])
                elif kind == "while":
                    pass
                raise PathEnd()
            # left via break: continue after the loop
            return
        # condition false: loop exits normally
        if st.orelse:
            self.exec_block(st.orelse, fr)

    def discover_assigned(self, st, fr, kind, seq, name):
        """Kind of value the loop body assigns to local `name`: run the body once on a copy of the state
        (all effects discarded) and look at the binding afterwards."""
        from .world import snapshot
        found = []
        saved_ghost = self.ghost
        saved_vcs = dict(self.vcs)

        def thunk():
            self.ghost = snapshot(saved_ghost)
            fr2 = Frame(fr.fi, fr.selfcls, snapshot(fr.locals), fr.module)
            fr2.contract, fr2.old, fr2.globals_decl = fr.contract, fr.old, fr.globals_decl
            try:
                if kind == "for":
                    n = seq.n if not seq.concrete() else len(seq.items)
                    if not self.branch(zint(n) > 0):
                        return VBool(True)
                    self.assign(st.target, self.list_get(seq, 0), fr2)
                else:
                    if not self.is_true(self.eval(st.test, fr2)):
                        return VBool(True)
                self.exec_block(st.body, fr2)
            except (BreakEx, ContinueEx, ReturnEx, Raised):
                pass
            v = fr2.locals.get(name)
            if v is not None and v is not NONE:
                found.append(v)
            return VBool(True)

        try:
            self.eval_merged(thunk)
        except (OutOfSubset, PathEnd):
            pass
        finally:
            self.ghost = saved_ghost
            self.vcs.clear()
            self.vcs.update(saved_vcs)
        for v in found:
            if not isinstance(v, VOpt) or v.inner is not NONE:
                return v
        return None

    def fresh_like(self, v, hint):
        if isinstance(v, VInt):
            return VInt(z3.Int(self.fresh_name(hint)))
        if isinstance(v, VBool):
            return VBool(z3.Bool(self.fresh_name(hint)))
        if isinstance(v, VReal):
            return VReal(z3.Real(self.fresh_name(hint)))
        if isinstance(v, VStr):
            return self.fresh("bytes" if v.isbytes else "str", hint)
        if v is NONE:
            return NONE
        if isinstance(v, VOpt):
            return VOpt(z3.Bool(self.fresh_name(hint + "_isnone")), self.fresh_like(v.inner, hint))
        if isinstance(v, VList):
            et = v.elemty
            if et is None and v.concrete():
                et = _guess_elemty(v.items)
            if et is None:
                raise OutOfSubset("havoc of list with unknown element type (%s)" % hint)
            n = z3.Int(self.fresh_name(hint + "_len"))
            self.assume(n >= 0)
            return self.symlist(n, et, hint)
        if isinstance(v, VTuple):
            return VTuple([self.fresh_like(x, "%s_%d" % (hint, i)) for i, x in enumerate(v.items)])
        if isinstance(v, VOpaque):
            return VOpaque(v.tag, z3.Const(self.fresh_name(hint), U), dict(v.attrs))
        if isinstance(v, VObj):
            o = VObj(v.cls, name=self.fresh_name(hint))
            o.fieldty = dict(v.fieldty)
            return o
        if isinstance(v, VDict) and v.items and v.sym is None and not v.overrides and all(isinstance(x, (VStr, VInt, VBool)) for x in v.items.values()):
            # a dict with a fixed set of literal keys (flags): the keys stay, the values are unknown
            return VDict({k: self.fresh_like(x, "%s_%s" % (hint, k)) for k, x in v.items.items()})
        if isinstance(v, VDict):
            vt = v.valty
            if vt is None:
                vals = list(v.items.values()) + [x for _, x in v.overrides]
                vt = _guess_elemty(vals) or "str"
            return VDict({}, sym=(self.fresh_name(hint), vt), valty=vt)
        raise OutOfSubset("havoc of %r" % (v,))

    # ---- expressions --------------------------------------------------------------------
    def eval_str(self, s, fr):
        tree = self.world.parse_expr(s)
        return self.eval(tree, fr)

    PURE_CALLS = {"str", "len", "int", "isinstance", "bool", "repr", "type", "ascii_digits", "implies", "old",
                  "startswith", "endswith", "find", "strip", "lstrip", "rstrip", "lower", "upper", "isdigit", "isascii",
                  "getselector", "gettype", "getname", "gethost", "getport", "getmimetype", "getsize", "getmtime", "getencoding",
                  "getencodedmimetype", "getlanguage", "getea", "getgopherpsupport", "getnum", "getfspath_", "get", "group"}

    def is_pure_expr(self, e):
        for n in ast.walk(e):
            if isinstance(n, ast.Call):
                f = n.func
                name = f.attr if isinstance(f, ast.Attribute) else (f.id if isinstance(f, ast.Name) else None)
                if isinstance(f, ast.Attribute) and isinstance(f.value, ast.Name) and f.value.id == "S":
                    continue
                if name not in self.PURE_CALLS:
                    return False
            elif isinstance(n, (ast.NamedExpr, ast.Yield, ast.Await, ast.Lambda, ast.ListComp, ast.GeneratorExp)):
                return False
        return True

    def eval(self, e, fr):
        if (isinstance(e, (ast.BoolOp, ast.IfExp)) or (isinstance(e, ast.Subscript) and not isinstance(e.slice, ast.Slice))) \
                and not getattr(self, "merge_depth", 0) and not self.no_branch and self.is_pure_expr(e):
            m0 = getattr(self, "ev_" + type(e).__name__)
            return self.eval_merged(lambda: m0(e, fr))
        m = getattr(self, "ev_" + type(e).__name__, None)
        if m is None:
            raise OutOfSubset("expression %s at line %s" % (type(e).__name__, getattr(e, "lineno", "?")))
        return m(e, fr)

    def ev_Constant(self, e, fr):
        c = e.value
        if c is None:
            return NONE
        if isinstance(c, bool):
            return VBool(c)
        if isinstance(c, int):
            return VInt(c)
        if isinstance(c, str):
            return VStr(c)
        if isinstance(c, bytes):
            return VStr(c.decode("latin-1"), True)
        if isinstance(c, float):
            return VReal(z3.RealVal(c))
        if c is Ellipsis:
            return NONE
        raise OutOfSubset("constant %r" % (c,))

    def ev_Name(self, e, fr):
        n = e.id
        if n in fr.locals and n not in fr.globals_decl:
            return fr.locals[n]
        if fr.fi is not None and n not in fr.globals_decl and n in _local_names(fr.fi):
            # a local that no executed statement has bound yet
            self.raise_("UnboundLocalError", site=getattr(e, "lineno", None))
        return self.world.lookup_name(self, fr, n)

    def ev_Tuple(self, e, fr):
        return VTuple([self.eval(x, fr) for x in e.elts])

    def ev_List(self, e, fr):
        return VList([self.eval(x, fr) for x in e.elts])

    def ev_Dict(self, e, fr):
        d = VDict()
        for k, v in zip(e.keys, e.values):
            kk = self.force(self.eval(k, fr))
            if not (isinstance(kk, (VStr, VInt)) and is_conc(kk.z)):
                raise OutOfSubset("dict literal with symbolic key")
            d.items[kk.z] = self.eval(v, fr)
        return d

    def ev_Set(self, e, fr):
        return VList([self.eval(x, fr) for x in e.elts])

    def ev_JoinedStr(self, e, fr):
        parts = []
        for p in e.values:
            if isinstance(p, ast.Constant):
                parts.append(VStr(p.value))
            elif isinstance(p, ast.FormattedValue):
                if p.format_spec is not None or p.conversion not in (-1, 115):
                    raise OutOfSubset("f-string format spec")
                parts.append(self.to_str(self.eval(p.value, fr)))
            else:
                raise OutOfSubset("f-string part")
        return self.concat_strs(parts)

    def concat_strs(self, parts, isbytes=False):
        if not parts:
            return VStr("", isbytes)
        if all(is_conc(p.z) for p in parts):
            return VStr("".join(p.z for p in parts), isbytes)
        zs = [zstr(p.z) for p in parts if not (is_conc(p.z) and p.z == "")]
        if len(zs) == 1:
            return VStr(zs[0], isbytes)
        return VStr(z3.Concat(*zs), isbytes)

    def to_str(self, v):
        """str(v) for the value kinds the code formats."""
        v = self.force(v)
        if isinstance(v, VStr):
            if v.isbytes:
                raise OutOfSubset("str() of bytes")
            return v
        if isinstance(v, VInt):
            if is_conc(v.z):
                return VStr(str(v.z))
            return VStr(self.world.int_to_str(self, v.z))
        if v is NONE:
            return VStr("None")
        if isinstance(v, VBool):
            if is_conc(v.z):
                return VStr(str(v.z))
            return VStr(z3.If(v.z, z3.StringVal("True"), z3.StringVal("False")))
        if isinstance(v, VExc):
            return self.world.exc_str(self, v)
        if isinstance(v, VOpaque):
            f = z3.Function("str_of_" + v.tag, U, z3.StringSort())
            return VStr(f(v.z))
        if isinstance(v, VReal):
            f = z3.Function("str_of_real", z3.RealSort(), z3.StringSort())
            return VStr(f(v.z))
        raise OutOfSubset("str() of %r" % (v,))

    def ev_BoolOp(self, e, fr):
        # short-circuit with Python value semantics (returns the deciding operand)
        isand = isinstance(e.op, ast.And)
        v = None
        for i, x in enumerate(e.values):
            v = self.eval(x, fr)
            if i == len(e.values) - 1:
                return v
            t = self.is_true(v)
            if isand and not t:
                return v
            if not isand and t:
                return v
        return v

    def ev_UnaryOp(self, e, fr):
        v = self.force(self.eval(e.operand, fr))
        if isinstance(e.op, ast.Not):
            return VBool(self.not_(self.truth(v)))
        if isinstance(e.op, ast.USub):
            if isinstance(v, VInt):
                return VInt(-v.z)
            if isinstance(v, VReal):
                return VReal(-v.z)
        raise OutOfSubset("unary %s" % type(e.op).__name__)

    def ev_IfExp(self, e, fr):
        if self.is_true(self.eval(e.test, fr)):
            return self.eval(e.body, fr)
        return self.eval(e.orelse, fr)

    def ev_BinOp(self, e, fr):
        a = self.eval(e.left, fr)
        b = self.eval(e.right, fr)
        return self.binop(e.op, a, b, e)

    def binop(self, op, a, b, node):
        a = self.force(a)
        b = self.force(b)
        if isinstance(op, ast.Add):
            if isinstance(a, VStr) and isinstance(b, VStr):
                if a.isbytes != b.isbytes:
                    self.raise_("TypeError", site=node.lineno)
                return self.concat_strs([a, b], a.isbytes)
            if isinstance(a, VList) and isinstance(b, VList):
                return self.list_concat(a, b)
            if isinstance(a, VTuple) and isinstance(b, VTuple):
                return VTuple(a.items + b.items)
            if a is NONE or b is NONE or (isinstance(a, VStr) != isinstance(b, VStr)):
                self.raise_("TypeError", site=node.lineno)
        if isinstance(op, ast.Mod) and isinstance(a, VStr):
            return self.world.percent_format(self, a, b, node)
        if isinstance(a, (VInt, VBool)) and isinstance(b, (VInt, VBool)):
            x, y = self.num(a), self.num(b)
            if isinstance(op, ast.Add):
                return VInt(x + y)
            if isinstance(op, ast.Sub):
                return VInt(x - y)
            if isinstance(op, ast.Mult):
                return VInt(x * y)
            if isinstance(op, (ast.FloorDiv, ast.Mod)):
                if not is_conc(y) or y == 0:
                    if self.branch(zint(y) == 0):
                        self.raise_("ZeroDivisionError", site=node.lineno)
                if is_conc(x) and is_conc(y):
                    return VInt(x // y if isinstance(op, ast.FloorDiv) else x % y)
                if is_conc(y) and y > 0:
                    # z3 div/mod with positive divisor = Python floor semantics
                    return VInt(zint(x) / y if isinstance(op, ast.FloorDiv) else zint(x) % y)
                raise OutOfSubset("floor division by symbolic/negative divisor")
            if isinstance(op, ast.BitAnd):
                if is_conc(x) and is_conc(y):
                    return VInt(x & y)
                f = z3.Function("bitand", z3.IntSort(), z3.IntSort(), z3.IntSort())
                return VInt(f(zint(x), zint(y)))
            if isinstance(op, ast.RShift) and is_conc(y):
                if is_conc(x):
                    return VInt(x >> y)
                return VInt(zint(x) / (2 ** y))
        if isinstance(a, (VInt, VReal, VBool)) and isinstance(b, (VInt, VReal, VBool)):
            x = z3.ToReal(zint(self.num(a))) if not isinstance(a, VReal) else a.z
            y = z3.ToReal(zint(self.num(b))) if not isinstance(b, VReal) else b.z
            if isinstance(op, ast.Add):
                return VReal(x + y)
            if isinstance(op, ast.Sub):
                return VReal(x - y)
            if isinstance(op, ast.Mult):
                return VReal(x * y)
        if isinstance(op, ast.Mult) and isinstance(a, VStr) and isinstance(b, VInt) and is_conc(a.z) and is_conc(b.z):
            return VStr(a.z * b.z, a.isbytes)
        raise OutOfSubset("binop %s on %r, %r" % (type(op).__name__, a, b))

    def list_concat(self, a, b):
        if a.concrete() and b.concrete():
            return VList(a.items + b.items, elemty=a.elemty or b.elemty)
        an = len(a.items) if a.concrete() else a.n
        bn = len(b.items) if b.concrete() else b.n
        eng = self

        def get(i, a=a, b=b, an=an):
            iz = zint(i)
            c = z3.simplify(iz < an)
            if z3.is_true(c):
                return eng.list_get(a, i)
            if z3.is_false(c):
                return eng.list_get(b, z3.simplify(iz - an))
            if eng.branch(c):
                return eng.list_get(a, i)
            return eng.list_get(b, iz - an)

        return VList(None, z3.simplify(zint(an) + zint(bn)), get, a.elemty or b.elemty)

    def list_get(self, lst, i):
        """Element at a non-negative in-range index (no bounds obligation here)."""
        if lst.concrete():
            if is_conc(i):
                return lst.items[i]
            si = z3.simplify(i)
            if z3.is_int_value(si):
                return lst.items[si.as_long()]
            # symbolic index into concrete list: case split
            for j in range(len(lst.items)):
                if self.branch(i == j):
                    return lst.items[j]
            raise PathEnd()
        return lst.get(i)

    def list_len(self, lst):
        return len(lst.items) if lst.concrete() else lst.n

    def ev_Compare(self, e, fr):
        left = self.eval(e.left, fr)
        res = []
        for op, rhs in zip(e.ops, e.comparators):
            right = self.eval(rhs, fr)
            r = self.compare(op, left, right, e)
            if len(e.ops) == 1:
                return VBool(r)
            # chained: short-circuit
            if not self.branch(r):
                return VBool(False)
            left = right
        return VBool(True)

    def compare(self, op, a, b, node):
        if isinstance(op, ast.Is):
            return self.is_(a, b)
        if isinstance(op, ast.IsNot):
            return self.not_(self.is_(a, b))
        if isinstance(op, ast.Eq):
            return self.eq(a, b)
        if isinstance(op, ast.NotEq):
            return self.not_(self.eq(a, b))
        if isinstance(op, ast.In):
            return self.contains(b, a, node)
        if isinstance(op, ast.NotIn):
            return self.not_(self.contains(b, a, node))
        a = self.force(a)
        b = self.force(b)
        if isinstance(a, (VInt, VBool, VReal)) and isinstance(b, (VInt, VBool, VReal)):
            x, y = self.num(a), self.num(b)
            if isinstance(a, VReal) != isinstance(b, VReal):
                if not isinstance(a, VReal):
                    x = z3.ToReal(zint(x))
                if not isinstance(b, VReal):
                    y = z3.ToReal(zint(y))
            return _cmp(op, x, y)
        if isinstance(a, VStr) and isinstance(b, VStr) and a.isbytes == b.isbytes:
            if is_conc(a.z) and is_conc(b.z):
                return _cmp(op, a.z, b.z)
            x, y = zstr(a.z), zstr(b.z)
            if isinstance(op, ast.Lt):
                return x < y
            if isinstance(op, ast.LtE):
                return x <= y
            if isinstance(op, ast.Gt):
                return y < x
            if isinstance(op, ast.GtE):
                return y <= x
        if a is NONE or b is NONE:
            self.raise_("TypeError", site=node.lineno)
        raise OutOfSubset("compare %s on %r, %r" % (type(op).__name__, a, b))

    def is_(self, a, b):
        if isinstance(a, VOpt) and b is NONE:
            return a.isnone
        if isinstance(b, VOpt) and a is NONE:
            return b.isnone
        a = self.force(a)
        b = self.force(b)
        if a is NONE or b is NONE:
            return a is b
        if isinstance(a, VBool) and isinstance(b, VBool):
            return self.eq(a, b)
        if isinstance(a, VClass) and isinstance(b, VClass):
            return a.name == b.name
        if isinstance(a, (VInt, VStr)) and isinstance(b, (VInt, VStr)):
            return self.eq(a, b)
        if isinstance(a, VObj) and isinstance(b, VObj):
            # a pre-state snapshot of an object is the same object
            ra = getattr(a, "live", None) or a
            rb = getattr(b, "live", None) or b
            return ra is rb
        if isinstance(a, (VDict, VList)) and isinstance(b, (VDict, VList)):
            return _ident(a) is _ident(b)
        if isinstance(a, VFunc) and isinstance(b, VFunc):
            if a.fi is not None and b.fi is not None:
                return a.fi.qualname == b.fi.qualname and a.selfobj is b.selfobj
            return a.ext is not None and a.ext == b.ext and a.selfobj is b.selfobj
        if isinstance(a, VModule) and isinstance(b, VModule):
            return a.name == b.name
        return a is b

    def contains(self, container, item, node):
        c = self.force(container)
        x = self.force(item)
        if isinstance(c, VStr):
            if not isinstance(x, VStr):
                self.raise_("TypeError", site=node.lineno)
            if is_conc(c.z) and is_conc(x.z):
                return x.z in c.z
            if is_conc(x.z) and not is_conc(c.z):
                return strlemmas.contains(c.z, x.z)
            return z3.Contains(zstr(c.z), zstr(x.z))
        if isinstance(c, (VList, VTuple)):
            if isinstance(c, VTuple) or c.concrete():
                return self.or_([self.eq(y, x) for y in c.items])
            raise OutOfSubset("`in` on symbolic list")
        if isinstance(c, VDict):
            return self.dict_has(c, x)
        raise OutOfSubset("`in` on %r" % (c,))

    def dict_has(self, d, k):
        k = self.force(k)
        if k is NONE:
            return False
        if not isinstance(k, (VStr, VInt)):
            raise OutOfSubset("dict key %r" % (k,))
        isstr = isinstance(k, VStr)
        kz = zstr(k.z) if isstr else zint(k.z)
        alts = []
        if is_conc(k.z):
            base = k.z in d.items
        else:
            for ck in d.items:
                if isinstance(ck, str) == isstr:
                    alts.append(kz == ck)
            base = None
        if d.sym is not None:
            f = z3.Function("dict_has_" + d.sym[0], z3.StringSort() if isstr else z3.IntSort(), z3.BoolSort())
            alts.append(f(kz))
        has = base if base is not None and not alts else self.or_(([base] if base else []) + alts)
        # later stores / deletions override earlier state, in program order
        for (ok, v) in d.overrides:
            same = kz == (zstr(ok) if isstr else zint(ok))
            present = v is not DELETED
            if isinstance(has, bool) and isinstance(present, bool):
                has = z3.If(same, z3.BoolVal(present), z3.BoolVal(has))
            else:
                has = z3.If(same, z3.BoolVal(present), zbool(has))
        if not isinstance(has, bool):
            has = z3.simplify(has)
        return has

    def dict_get(self, d, k, node=None, default=None):
        """d[k] (default None -> KeyError) with case split on concrete keys."""
        k = self.force(k)
        if k is NONE:
            if default is not None:
                return default
            self.raise_("KeyError", site=getattr(node, "lineno", None))
        if not isinstance(k, (VStr, VInt)):
            raise OutOfSubset("dict key %r" % (k,))
        for (ok, v) in reversed(d.overrides):
            if self.branch(zstr(k.z) == zstr(ok) if isinstance(k, VStr) else zint(k.z) == zint(ok)):
                if v is DELETED:
                    if default is not None:
                        return default
                    self.raise_("KeyError", site=getattr(node, "lineno", None))
                return v
        if is_conc(k.z):
            if k.z in d.items:
                return d.items[k.z]
        else:
            for ck, v in d.items.items():
                if isinstance(ck, str) == isinstance(k, VStr):
                    if self.branch(zstr(k.z) == ck if isinstance(ck, str) else k.z == ck):
                        return v
        if d.sym is not None:
            name, valty = d.sym
            ks = z3.StringSort() if isinstance(k, VStr) else z3.IntSort()
            kz = zstr(k.z) if isinstance(k, VStr) else zint(k.z)
            has = z3.Function("dict_has_" + name, ks, z3.BoolSort())
            if self.branch(has(kz)):
                return self.world.dict_sym_value(self, d, kz, valty)
        if default is not None:
            return default
        self.raise_("KeyError", site=getattr(node, "lineno", None))

    def ev_Subscript(self, e, fr):
        obj = self.force(self.eval(e.value, fr))
        if isinstance(e.slice, ast.Slice):
            lo = self.force(self.eval(e.slice.lower, fr)) if e.slice.lower is not None else None
            hi = self.force(self.eval(e.slice.upper, fr)) if e.slice.upper is not None else None
            if e.slice.step is not None:
                raise OutOfSubset("slice step")
            return self.slice(obj, lo, hi, e)
        idx = self.force(self.eval(e.slice, fr))
        return self.getitem(obj, idx, e)

    def getitem(self, obj, idx, node):
        if isinstance(obj, VDict):
            return self.dict_get(obj, idx, node)
        if isinstance(obj, VOpaque) and "getitem" in obj.attrs:
            return obj.attrs["getitem"](self, idx, node)
        if not isinstance(idx, (VInt, VBool)):
            raise OutOfSubset("index %r" % (idx,))
        i = self.num(idx)
        if isinstance(obj, VStr):
            if is_conc(obj.z) and is_conc(i):
                if not (-len(obj.z) <= i < len(obj.z)):
                    self.raise_("IndexError", site=node.lineno)
                return VStr(obj.z[i], obj.isbytes) if not obj.isbytes else VInt(ord(obj.z[i]))
            s = zstr(obj.z)
            L = z3.Length(s)
            iz = zint(i)
            if not self.branch(z3.And(iz >= -L, iz < L)):
                self.raise_("IndexError", site=node.lineno)
            if is_conc(i) and i >= 0:
                pos = iz
            elif is_conc(i):
                pos = L + iz
            else:
                pos = z3.If(iz < 0, L + iz, iz)
            if obj.isbytes:
                return VInt(z3.StrToCode(z3.SubString(s, pos, 1)))
            return VStr(z3.SubString(s, pos, 1))
        if isinstance(obj, VTuple) or (isinstance(obj, VList) and obj.concrete()):
            items = obj.items
            if is_conc(i):
                if not (-len(items) <= i < len(items)):
                    self.raise_("IndexError", site=node.lineno)
                return items[i]
            for j in range(len(items)):
                if self.branch(zint(i) == j):
                    return items[j]
            for j in range(1, len(items) + 1):
                if self.branch(zint(i) == -j):
                    return items[-j]
            self.raise_("IndexError", site=node.lineno)
        if isinstance(obj, VList):
            iz = zint(i)
            if is_conc(i) and i >= 0:
                if not self.branch(iz < obj.n):
                    self.raise_("IndexError", site=node.lineno)
                return obj.get(i)
            if is_conc(i):
                if not self.branch(-iz <= obj.n):
                    self.raise_("IndexError", site=node.lineno)
                return obj.get(z3.simplify(obj.n + iz))
            if not self.branch(z3.And(iz >= -obj.n, iz < obj.n)):
                self.raise_("IndexError", site=node.lineno)
            if self.branch(iz >= 0):
                return obj.get(iz)
            return obj.get(obj.n + iz)
        raise OutOfSubset("subscript of %r" % (obj,))

    def slice(self, obj, lo, hi, node):
        def bound(b):
            if b is None or b is NONE:
                return None
            if not isinstance(b, (VInt, VBool)):
                raise OutOfSubset("slice bound %r" % (b,))
            return self.num(b)

        lo = bound(lo)
        hi = bound(hi)
        if isinstance(obj, VStr):
            if is_conc(obj.z) and (lo is None or is_conc(lo)) and (hi is None or is_conc(hi)):
                return VStr(obj.z[lo:hi], obj.isbytes)
            s = zstr(obj.z)
            L = z3.Length(s)

            def norm(b, default):
                if b is None:
                    return default
                if is_conc(b):
                    if b >= 0:
                        return z3.If(L < b, L, z3.IntVal(b)) if b > 0 else z3.IntVal(0)
                    return z3.If(L + b < 0, z3.IntVal(0), L + b)
                return z3.If(b < 0, z3.If(L + b < 0, z3.IntVal(0), L + b), z3.If(b > L, L, b))

            start = norm(lo, z3.IntVal(0))
            stop = norm(hi, L)
            ln = z3.If(stop - start < 0, z3.IntVal(0), stop - start)
            return VStr(z3.simplify(z3.SubString(s, start, ln)), obj.isbytes)
        if isinstance(obj, (VTuple,)) or (isinstance(obj, VList) and obj.concrete()):
            if (lo is None or is_conc(lo)) and (hi is None or is_conc(hi)):
                items = obj.items[lo:hi]
                return VTuple(items) if isinstance(obj, VTuple) else VList(items, elemty=obj.elemty)
        if isinstance(obj, VList) and not obj.concrete():
            # xs[a:] and xs[:b] with non-negative concrete or symbolic in-range bounds
            n = obj.n
            if hi is None and lo is not None:
                loz = zint(lo)
                if is_conc(lo) and lo < 0:
                    raise OutOfSubset("negative slice bound on symbolic list")
                start = z3.If(loz > n, n, loz)
                out = VList(None, z3.simplify(n - start), lambda i, o=obj, s=start: o.get(z3.simplify(zint(i) + s)), obj.elemty)
                so = getattr(obj, "split_of", None)
                if so is not None and is_conc(lo):
                    out.split_of = (so[0], so[1], so[2] + lo, so[3])
                return out
            if lo is None and hi is not None:
                hiz = zint(hi)
                if is_conc(hi) and hi < 0:
                    raise OutOfSubset("negative slice bound on symbolic list")
                stop = z3.If(hiz > n, n, hiz)
                return VList(None, z3.simplify(stop), obj.get, obj.elemty)
        raise OutOfSubset("slice of %r" % (obj,))

    def ev_Attribute(self, e, fr):
        obj = self.eval(e.value, fr)
        return self.getattr(obj, e.attr, fr, e)

    def getattr(self, obj, attr, fr=None, node=None):
        obj = self.force(obj)
        if isinstance(obj, VObj):
            if attr in obj.fields:
                return obj.fields[attr]
            if attr in obj.unset:
                self.raise_("AttributeError", site=getattr(node, "lineno", None))
            live = getattr(obj, "live", None)
            if live is not None and (attr in live.fieldty or attr in live.entry):
                v = _oldview(self.entry_value(live, attr, node))
                obj.fields[attr] = v
                return v
            if attr in obj.fieldty and (not getattr(obj, "fresh_alloc", False) or obj.fieldty[attr].startswith("ghost:")):
                try:
                    v = self.entry_value(obj, attr, node)
                except Raised:
                    obj.unset.add(attr)
                    raise
                v = _container_copy(v)  # the entry value itself stays untouched for old(...)
                obj.fields[attr] = v
                return v
            m = self.world.resolve_method(obj.cls, attr)
            if m is not None:
                return VFunc(fi=m, selfobj=obj)
            ca = self.world.class_attr(self, obj.cls, attr, fr)
            if ca is not None:
                return ca
            ext = self.world.obj_method(self, obj, attr)
            if ext is not None:
                return ext
            raise OutOfSubset("attribute %s.%s (class %s): no field type declared" % (obj.name, attr, obj.cls))
        if isinstance(obj, VExc):
            if attr == "args":
                from .externals import force_oserror_args
                return VTuple(force_oserror_args(self, obj))
            if attr in obj.attrs:
                return obj.attrs[attr]
            return self.world.exc_attr(self, obj, attr)
        if isinstance(obj, VModule):
            return self.world.module_attr(self, obj, attr, fr)
        if isinstance(obj, VClass):
            m = self.world.resolve_method(obj.name, attr)
            if m is not None:
                return VFunc(fi=m, selfobj=None, selfcls=obj.name)
            ca = self.world.class_attr(self, obj.name, attr, fr)
            if ca is not None:
                return ca
            if attr == "__name__":
                return VStr(obj.name)
            raise OutOfSubset("class attribute %s.%s" % (obj.name, attr))
        if isinstance(obj, (VStr, VList, VDict, VTuple, VOpaque, VInt)):
            return VFunc(ext="method:" + attr, selfobj=obj)
        if obj is NONE:
            self.raise_("AttributeError", site=getattr(node, "lineno", None))
        raise OutOfSubset("attribute %s on %r" % (attr, obj))

    def entry_value(self, obj, attr, node=None):
        """Value of obj.attr at function entry (lazily materialised, at most once per path)."""
        if attr in obj.entry:
            v = obj.entry[attr]
            if v is UNSET:
                self.raise_("AttributeError", site=getattr(node, "lineno", None))
            return v
        ty = obj.fieldty[attr]
        if ty.startswith("ghost:"):
            ty = ty[6:]
        if ty.startswith("maybe:"):
            ty = ty[6:]
            if getattr(self, "merge_depth", 0) > 0:
                raise NeedFork()
            isset = z3.Bool(self.fresh_name("%s_has_%s" % (obj.name, attr)))
            if not self.branch(isset):
                obj.entry[attr] = UNSET
                self.raise_("AttributeError", site=getattr(node, "lineno", None))
        v = self.fresh(ty, "%s.%s" % (obj.name, attr))
        obj.entry[attr] = v
        return v

    def ev_ListComp(self, e, fr):
        if len(e.generators) != 1:
            raise OutOfSubset("nested comprehension")
        g = e.generators[0]
        it = self.force(self.eval(g.iter, fr))
        if isinstance(it, VDict) and it.sym is None and not it.overrides:
            it = VList([VStr(k) if isinstance(k, str) else VInt(k) for k in it.items])
        if isinstance(it, VTuple):
            it = VList(it.items)
        if not isinstance(it, VList):
            raise OutOfSubset("comprehension over %r" % (it,))
        if it.concrete():
            out = []
            for x in it.items:
                sub = Frame(fr.fi, fr.selfcls, dict(fr.locals), fr.module)
                self.assign(g.target, x, sub)
                if all(self.is_true(self.eval(c, sub)) for c in g.ifs):
                    out.append(self.eval(e.elt, sub))
            return VList(out)
        if g.ifs:
            raise OutOfSubset("filtering comprehension over symbolic list")
        eng = self
        cache = {}

        def get(i, it=it):
            key = str(i)
            if key not in cache:
                sub = Frame(fr.fi, fr.selfcls, dict(fr.locals), fr.module)
                eng.assign(g.target, it.get(i), sub)
                cache[key] = eng.eval(e.elt, sub)
            return cache[key]

        return VList(None, it.n, get, None)

    ev_GeneratorExp = ev_ListComp

    def ev_Call(self, e, fr):
        return self.world.call(self, e, fr)

    def ev_Lambda(self, e, fr):
        raise OutOfSubset("lambda")

    def ev_Starred(self, e, fr):
        raise OutOfSubset("starred")


def _ident(v):
    return getattr(v, "ident", v)


def _container_copy(v):
    """A copy that can be mutated without touching v, but denotes the same Python object (`is`)."""
    if isinstance(v, VList):
        if v.concrete():
            c = VList(list(v.items), elemty=v.elemty)
        else:
            c = VList(None, v.n, v.get, v.elemty)
        c.ident = _ident(v)
        return c
    if isinstance(v, VDict):
        d = VDict(dict(v.items), sym=v.sym, valty=v.valty)
        d.overrides = list(v.overrides)
        d.ident = _ident(v)
        return d
    if isinstance(v, VOpt):
        return VOpt(v.isnone, _container_copy(v.inner))
    return v


def _oldview(v):
    """Entry-state view of a lazily materialised nested object: reads go to the entry values only."""
    if isinstance(v, VObj):
        o = VObj(v.cls, name=v.name)
        o.fieldty = v.fieldty
        o.live = v
        return o
    if isinstance(v, VOpt):
        return VOpt(v.isnone, _oldview(v.inner))
    return v


def _cmp(op, x, y):
    if isinstance(op, ast.Lt):
        return x < y
    if isinstance(op, ast.LtE):
        return x <= y
    if isinstance(op, ast.Gt):
        return x > y
    if isinstance(op, ast.GtE):
        return x >= y
    raise OutOfSubset("compare op")


def _dotted(e):
    if isinstance(e, ast.Name):
        return e.id
    if isinstance(e, ast.Attribute):
        return _dotted(e.value) + "." + e.attr
    raise OutOfSubset("dotted name")


def _as_load(t):
    import copy

    t2 = copy.deepcopy(t)
    for n in ast.walk(t2):
        if hasattr(n, "ctx"):
            n.ctx = ast.Load()
    return t2


_LOCALS_CACHE = {}


def _local_names(fi):
    k = id(fi.node)
    if k not in _LOCALS_CACHE:
        names = set()
        for n in ast.walk(fi.node):
            if isinstance(n, ast.Name) and isinstance(n.ctx, ast.Store):
                names.add(n.id)
            elif isinstance(n, ast.ExceptHandler) and n.name:
                names.add(n.name)
        for n in ast.walk(fi.node):
            if isinstance(n, ast.Global):
                names -= set(n.names)
        _LOCALS_CACHE[k] = (fi, names)
    return _LOCALS_CACHE[k][1]


def _target_names(t):
    return {n.id for n in ast.walk(t) if isinstance(n, ast.Name)}


def _assigned_names(loop):
    """Names / self-fields a loop may modify (syntactic)."""
    out = set()
    for n in ast.walk(loop):
        if isinstance(n, ast.Name) and isinstance(n.ctx, ast.Store):
            out.add(n.id)
        elif isinstance(n, ast.Attribute) and isinstance(n.ctx, ast.Store):
            try:
                out.add(_dotted(n))
            except OutOfSubset:
                pass
        elif isinstance(n, ast.Call) and isinstance(n.func, ast.Attribute) and n.func.attr in ("append", "extend", "remove", "pop", "sort", "add", "update", "write"):
            try:
                out.add(_dotted(n.func.value))
            except OutOfSubset:
                pass
        elif isinstance(n, ast.Subscript) and isinstance(n.ctx, ast.Store):
            try:
                out.add(_dotted(n.value))
            except OutOfSubset:
                pass
    return out


def _guess_elemty(items):
    if not items:
        return None
    x = items[0]
    if isinstance(x, VStr):
        return "bytes" if x.isbytes else "str"
    if isinstance(x, VInt):
        return "int"
    if isinstance(x, VObj):
        return "obj:" + x.cls
    if isinstance(x, VOpaque):
        return "opaque:" + x.tag
    return None


def _split_top(s):
    out = []
    depth = 0
    cur = ""
    for ch in s:
        if ch == "[":
            depth += 1
        elif ch == "]":
            depth -= 1
        if ch == "," and depth == 0:
            out.append(cur.strip())
            cur = ""
        else:
            cur += ch
    if cur.strip():
        out.append(cur.strip())
    return out
