"""Verdicts, known findings, replay dispatch and evidence files."""
import json
import os
import re
import subprocess
import sys
import time

import z3

from . import solve
from .run import run_property
from .world import VERIF
from .extract import DROPPED

MANIFEST_OBL = os.path.join(VERIF, "contracts", "obligations.json")
KNOWN = os.path.join(VERIF, "known_findings.json")
TOP_KINDS = ("ensures", "raises", "on_raise", "lemma", "frame", "loop-init", "loop-step", "termination", "assert", "sink")


def load_known():
    if not os.path.exists(KNOWN):
        return {"findings": [], "fixed": []}
    return json.load(open(KNOWN))


def solver_versions():
    out = ["z3 %s (python API, python3-vt)" % z3.get_version_string()]
    for cmd, tag in ((["/usr/bin/cvc5", "--version"], "cvc5"), (["/usr/bin/z3", "--version"], "z3-cli")):
        try:
            o = subprocess.run(cmd, capture_output=True, text=True, timeout=10).stdout.splitlines()[0]
            out.append("%s: %s" % (tag, o.strip()))
        except Exception:
            pass
    return out


def _site_of(ob):
    for v in ob.vcs:
        if v.status == "sat":
            return v.site
    return None


def check_property(prop, tier, repo, record=False, verbose=False):
    t0 = time.time()
    seed = int(os.environ.get("VERIF_SEED", "0") or 0)
    rep = run_property(prop, tier, repo, verbose)
    obs = rep["obligations"]
    # "negative" obligations exist only while some path might do the forbidden thing: not part of the manifest
    names_top = sorted(n for n, o in obs.items() if o.kind in TOP_KINDS and not n.endswith("raises-only-declared") and ".frame[" not in n
                       and ".raises[" not in n)
    # --- manifest of obligation names (vacuity guard) ---------------------------------
    man = json.load(open(MANIFEST_OBL)) if os.path.exists(MANIFEST_OBL) else {}
    SHA_FILE = os.path.join(VERIF, "contracts", "function_sha.json")
    cur_sha = {q: fi.sha for q, fi in rep["world"].repo.funcs.items() if not q.startswith(("iface", "spec/")) and "/tests/" not in q and not q.startswith("tests/")}
    if record:
        json.dump(cur_sha, open(SHA_FILE, "w"), indent=0, sort_keys=True)
    if record:
        man[prop] = names_top + ["ast:" + a["name"] for a in rep["ast"]]
        json.dump(man, open(MANIFEST_OBL, "w"), indent=1, sort_keys=True)
        print("recorded %d obligation names for %s" % (len(man[prop]), prop))
    known = load_known()
    kf = [k for k in known.get("findings", []) if k["property"] == prop]
    lines = []
    refuted, undecided, discharged = [], [], []
    for n, o in sorted(obs.items()):
        st = o.status
        (refuted if st == "refuted" else undecided if st == "undecided" else discharged).append(o)
    soft = rep["world"].soft_ast
    ast_bad = [a for a in rep["ast"] if not a["ok"] and a["name"] not in soft]
    ast_soft_bad = [a for a in rep["ast"] if not a["ok"] and a["name"] in soft]
    n_obl = len(obs) + len(rep["ast"])
    # --- vacuity guards --------------------------------------------------------------
    problems = []
    if n_obl == 0:
        problems.append("zero obligations generated")
    produced = set(obs) | {"ast:" + a["name"] for a in rep["ast"]}
    undec_funcs = {u["function"] for u in rep["undecided"]}
    missing = [n for n in man.get(prop, []) if n not in produced and not n.endswith("raises-only-declared") and ".frame[" not in n and ".raises[" not in n]
    can_by_fn = {}
    for c in rep["canaries"]:
        can_by_fn.setdefault(c["function"], []).append(c["status"])
    for fn, sts in can_by_fn.items():
        if "sat" not in sts:
            problems.append("canary postcondition of %s was not refuted (%s): encoding vacuous?" % (fn, sorted(set(sts))))
    for tgt in rep["unreachable"]:
        problems.append("no reachable normal exit under the precondition of %s (contradictory requires?)" % tgt)
    for tgt, tb in rep["errors"]:
        problems.append("checker crashed on %s:\n%s" % (tgt, tb))
    # --- known findings ---------------------------------------------------------------
    violations = []
    known_hit = []
    for o in refuted:
        site = _site_of(o)
        hit = None
        for k in kf:
            if k["obligation"] == o.name:
                # a finding may pin down WHICH refutations it covers (substrings of the refuting paths' notes, e.g. the
                # exception class): a refutation of the same obligation that matches none of them is a new violation
                pins = k.get("note_any")
                if pins and not all(any(p in (v.note or "") for p in pins) for v in o.vcs if v.status == "sat"):
                    continue
                hit = k
                break
        if hit is not None:
            known_hit.append((o, hit))
        else:
            violations.append(o)
    for a in ast_bad:
        hit = None
        for k in kf:
            if k["obligation"] == "ast:" + a["name"] and sorted(k.get("detail", [])) == sorted(a["detail"] if isinstance(a["detail"], list) else [a["detail"]]):
                hit = k
        if hit is not None:
            known_hit.append((a, hit))
        else:
            violations.append(a)
    # --- replay of refutations ----------------------------------------------------------
    replay_dir = os.path.join(VERIF, "replays", prop)
    os.makedirs(replay_dir, exist_ok=True)
    vio_lines = []
    from . import replay as RP

    for o in violations:
        if isinstance(o, dict):
            path = os.path.join(replay_dir, re.sub(r"[^A-Za-z0-9_.-]", "_", o["name"]) + ".json")
            json.dump({"property": prop, "obligation": "ast:" + o["name"], "kind": "syntactic", "detail": o["detail"],
                       "verifier_output": "syntactic obligation failed on %s" % repo}, open(path, "w"), indent=1)
            vio_lines.append("VIOLATION property=%s replay=%s no-failing-input-found" % (prop, os.path.relpath(path, VERIF)))
            continue
        path, confirmed = RP.write_and_replay(prop, o, rep, repo, replay_dir)
        if confirmed == "confirmed":
            vio_lines.append("VIOLATION property=%s replay=%s" % (prop, os.path.relpath(path, VERIF)))
        elif confirmed == "disagrees":
            # the real code does not fail on the concretised input: engine or contract at fault
            undecided.append(o)
            lines.append("UNDECIDED property=%s obligation=%s reason=replay-disagrees (counter-model did not reproduce on the real code; see %s)" % (prop, o.name, os.path.relpath(path, VERIF)))
        else:
            vio_lines.append("VIOLATION property=%s replay=%s no-failing-input-found" % (prop, os.path.relpath(path, VERIF)))
    # --- bounded stand-in for functions the verifier could not decide ---------------------------------
    # (left the subset, exceeded the budget, or lost obligations recorded on the unchanged tree): the native
    # scenario harness of that function is run on the real code; a failing scenario is a violation with a
    # real failing input, anything else stays undecided.  Labelled bounded, never counted as proved.
    standins = []
    undec_targets = [u["function"] for u in rep["undecided"]]
    for mname in missing:
        undec_targets.append("obligation:" + mname)
    for o in undecided:
        # solver-unknown obligations (e.g. a change whose counter-model the string solvers do not find)
        undec_targets.append("obligation:" + o.name)
    seen_fn = set()
    for tgt in undec_targets:
        fn = RP.function_of(tgt, rep["world"])
        if fn is None or fn in seen_fn:
            continue
        seen_fn.add(fn)
        path, status = RP.standin(prop, fn, tgt, repo, replay_dir)
        standins.append({"function": fn, "reason": tgt, "tool": "native scenario harness (replay/realisers.py)", "result": status, "replay": os.path.relpath(path, VERIF) if path else None})
        if status == "confirmed":
            vio_lines.append("VIOLATION property=%s replay=%s" % (prop, os.path.relpath(path, VERIF)))
    # parts of the property that are induction over whole programs / whole archives: their scenario harness runs on
    # every check (bounded, labelled as such in the evidence; a failing scenario is a violation with a real input)
    for fn, why in rep["world"].always_standin.get(prop, []):
        if fn in seen_fn:
            continue
        seen_fn.add(fn)
        path, status = RP.standin(prop, fn, "always: " + why, repo, replay_dir)
        standins.append({"function": fn, "reason": "always run: " + why, "tool": "native scenario harness (replay/realisers.py)", "result": status, "replay": os.path.relpath(path, VERIF) if path else None})
        if status == "confirmed":
            vio_lines.append("VIOLATION property=%s replay=%s" % (prop, os.path.relpath(path, VERIF)))
        elif status == "harness-error":
            # an always-run scenario harness that crashes would otherwise pass for "nothing found"
            problems.append("the always-run stand-in of %s failed to run (see %s)" % (fn, os.path.relpath(path, VERIF)))
    # functions whose source differs from the recorded tree (or that are new): their scenario harness runs as an extra
    # net even when every contract still verifies - a changed function under an assumed contract, or under none, is
    # where property-breaking changes were missed (DESIGN 0.8).  On the recorded tree this set is empty.
    try:
        old_sha = json.load(open(SHA_FILE)) if os.path.exists(SHA_FILE) else {}
        changed = sorted(q for q, h in cur_sha.items() if old_sha and old_sha.get(q) != h)
        if changed:
            sys.path.insert(0, VERIF)
            from replay import realisers as _R2
            prop_files = {f["function"].split("::")[0] for f in rep["functions"]} | {u["function"].split("::")[0].lstrip("('") for u in rep["undecided"]}
            prop_files |= {q.split("::")[0] for (q, _c), c in rep["world"].contracts.items() if prop in c.props}
            keys2 = {}
            for q in changed:
                if q.split("::")[0] not in prop_files:
                    continue  # a file none of this property's contracts is about
                k_ = _R2.find_key(q)
                if k_ is not None and k_ not in keys2:
                    keys2[k_] = q
            for k_, q in sorted(keys2.items()):
                if q in seen_fn:
                    continue
                seen_fn.add(q)
                path, status = RP.standin(prop, q, "source of this function differs from the recorded tree", repo, replay_dir)
                standins.append({"function": q, "reason": "changed function: scenario harness run in addition to the contracts", "tool": "native scenario harness (replay/realisers.py)",
                                 "result": status, "replay": os.path.relpath(path, VERIF) if path else None})
                if status == "confirmed":
                    vio_lines.append("VIOLATION property=%s replay=%s" % (prop, os.path.relpath(path, VERIF)))
    except ImportError:
        pass
    if tier == "thorough":
        # thorough tier: besides the larger solver budgets and the extra back ends, every scenario harness registered
        # for a function under contract of this property is run once on the real code (bounded evidence on top of the
        # proofs: it exercises the assumed library models and interface contracts the proofs rest on)
        try:
            sys.path.insert(0, VERIF)
            from replay import realisers as _R
            keys = {}
            for f in rep["functions"]:
                q = f["function"].split(" [")[0]
                k_ = _R.find_key(q)
                if k_ is not None and k_ not in keys:
                    keys[k_] = q
            for k_, q in sorted(keys.items()):
                if q in seen_fn:
                    continue
                seen_fn.add(q)
                path, status = RP.standin(prop, q, "thorough tier: scenario harness of a verified function", repo, replay_dir)
                standins.append({"function": q, "reason": "thorough tier: run in addition to the proof", "tool": "native scenario harness (replay/realisers.py)", "result": status,
                                 "replay": os.path.relpath(path, VERIF) if path else None})
                if status == "confirmed":
                    vio_lines.append("VIOLATION property=%s replay=%s" % (prop, os.path.relpath(path, VERIF)))
        except ImportError:
            pass
    for o, k in known_hit:
        lines.append("KNOWN-FINDING: property=%s %s" % (prop, k["what"]))
    # --- evidence ------------------------------------------------------------------------
    per_backend = {}
    solver_s = 0.0
    max_s = 0.0
    nvc = 0
    for o in obs.values():
        for v in o.vcs:
            nvc += 1
            per_backend[v.backend] = per_backend.get(v.backend, 0) + 1
            solver_s += v.time
            max_s = max(max_s, v.time)
    samples = []
    for o in list(obs.values())[:: max(1, len(obs) // 6)][:6]:
        v = o.vcs[0]
        samples.append({"obligation": o.name, "kind": o.kind, "clause": o.note, "paths": len(o.vcs), "status": o.status,
                        "backend": sorted({x.backend for x in o.vcs}), "smt2_head": v.smt2_head})
    n_known = len(known_hit)
    n_claim = n_obl - n_known
    n_dis = len(discharged) + len([a for a in rep["ast"] if a["ok"]])
    evidence = {
        "property_id": prop,
        "tier": tier if tier in ("quick", "thorough") else "quick",
        "seed": seed,
        "level": "proof",
        "coverage": {
            "obligations": n_claim,
            "discharged": n_dis,
            "checker_cmd": "./check %s --tier %s" % (prop, tier),
            "trusted_base": solver_versions() + [
                "pyvc (this repository's AST->VC generator, /verif/pyvc): Python-subset semantics of DESIGN.md section 2.3",
                "CPython ast module (extraction)",
            ],
            "verification_conditions": nvc,
            "paths_enumerated": rep["npaths"],
            "per_backend": per_backend,
            "solver_s": round(solver_s, 3),
            "solver_max_s": round(max_s, 3),
            "functions_under_contract": rep["functions"],
            "inlined_accessors": sorted(rep["inlined"]),
            "syntactic_obligations": rep["ast"],
            "refuted_known": [{"obligation": (o.name if not isinstance(o, dict) else "ast:" + o["name"]), "finding": k["what"]} for o, k in known_hit],
            "undecided": [o.name for o in undecided if not isinstance(o, dict)] + [u["function"] + ": " + u["reason"] for u in rep["undecided"]],
            "canaries_refuted": {fn: ("sat" in sts) for fn, sts in can_by_fn.items()},
            "bounded_standins": standins,
            "extraction_drops": DROPPED,
            "samples": samples,
            "explanation": "deductive: every named obligation is a set of per-path verification conditions generated from the current source of the functions listed; discharged = unsat of pc /\\ not goal",
        },
        "assumptions": sorted(rep["assumptions"]) + [
            "assumed (unverified) contracts: " + ", ".join(sorted(q for (q, c_), c in rep["world"].contracts.items() if c.assumed and prop in c.props)) or "none",
        ],
        "wall_s": round(time.time() - t0, 2),
        "violations": len(vio_lines),
    }
    # runs against a scratch copy (--repo, used by the seeding tools) must not overwrite the evidence of /repo
    evdir = os.path.join(VERIF, "evidence") if os.path.realpath(repo) == os.path.realpath(os.environ.get("PYVC_HOME_REPO", "/repo")) else os.path.join(VERIF, "evidence", "scratch")
    os.makedirs(evdir, exist_ok=True)
    json.dump(evidence, open(os.path.join(evdir, prop + ".json"), "w"), indent=1, default=str)
    # --- verdict ------------------------------------------------------------------------
    for l in lines:
        print(l)
    if vio_lines:
        for l in vio_lines:
            print(l)
        return 1
    if problems:
        for p in problems:
            print("CHECKER-ERROR property=%s %s" % (prop, p))
        return 3
    if undecided or rep["undecided"] or missing or ast_soft_bad:
        for a in ast_soft_bad:
            print("UNDECIDED property=%s obligation=ast:%s reason=shape-changed (%s)" % (prop, a["name"], "; ".join(a["detail"]) if isinstance(a["detail"], list) else a["detail"]))
        for o in undecided:
            if not isinstance(o, dict):
                print("UNDECIDED property=%s obligation=%s reason=solver-unknown" % (prop, o.name))
        for u in rep["undecided"]:
            print("UNDECIDED property=%s function=%s reason=%s" % (prop, u["function"], u["reason"]))
        for m in missing:
            print("UNDECIDED property=%s obligation=%s reason=obligation-not-generated (function renamed or restructured?)" % (prop, m))
        return 2
    print("OK property=%s obligations=%d discharged=%d known-findings=%d vcs=%d wall=%.1fs" % (prop, n_claim, n_dis, n_known, nvc, time.time() - t0))
    return 0


def replay_file(path, repo):
    from . import replay as RP

    return RP.rerun(path, repo)
