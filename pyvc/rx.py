"""Python `re` literal pattern -> z3 regular expression (for str or bytes subjects).

Supported: literals, escapes (\\d \\s \\w \\. \\+ \\\\ \\t \\n \\r \\0 and other escaped
punctuation), character classes [...] with ranges and negation, `.`, `*`, `+`, `?`,
`|`, (capturing) groups, `^` at the very start and `$` at the very end of the
pattern or of a top-level alternative.  `$` has Python's meaning: end of string or
just before one trailing newline.  Anything else raises Unsupported, which makes the
calling function leave the verifier's subset.

compile_search(p) gives the regex R such that  re.search(p, s) is not None  <=>  s in R.
compile_match(p)  likewise for re.match.
"""
import z3


class Unsupported(Exception):
    pass


def _ch(c):
    return z3.Re(z3.StringVal(c))


def _range(a, b):
    return z3.Range(z3.StringVal(a), z3.StringVal(b))


MAXC = chr(0x2FFFF)


RE_SORT = z3.ReSort(z3.StringSort())


def _any():
    return z3.AllChar(RE_SORT)


def _dot():
    # any character except newline
    return z3.Union(_range("\x00", "\x09"), _range("\x0b", MAXC))


def _union(parts):
    parts = list(parts)
    if len(parts) == 1:
        return parts[0]
    return z3.Union(*parts)


_WS = " \t\n\r\x0b\x0c"


def _cls_escape(c):
    if c == "d":
        return [_range("0", "9")]
    if c == "s":
        return [_ch(x) for x in _WS]
    if c == "w":
        return [_range("a", "z"), _range("A", "Z"), _range("0", "9"), _ch("_")]
    if c == "t":
        return [_ch("\t")]
    if c == "n":
        return [_ch("\n")]
    if c == "r":
        return [_ch("\r")]
    if c == "0":
        return [_ch("\0")]
    if c.isalnum():
        raise Unsupported("escape \\%s" % c)
    return [_ch(c)]


def _neg_class(parts):
    """[^...] as an explicit union of ranges."""
    ivs = []
    for p in parts:
        d = p.decl().name()
        ch = p.children()
        if d == "str.to_re" or d == "str.to.re" or d == "seq.to.re":
            c = ord(_lit(ch[0]))
            ivs.append((c, c))
        elif d == "re.range":
            ivs.append((ord(_lit(ch[0])), ord(_lit(ch[1]))))
        else:
            raise Unsupported("negated class member %s" % d)
    ivs.sort()
    out = []
    lo = 0
    for a, b in ivs:
        if a > lo:
            out.append((lo, a - 1))
        lo = max(lo, b + 1)
    if lo <= 0x2FFFF:
        out.append((lo, 0x2FFFF))
    return _union([_range(chr(a), chr(b)) for a, b in out])


def _lit(zv):
    s = zv.as_string()
    if s.startswith("\\u{"):
        return chr(int(s[3:-1], 16))
    return s


class _P:
    def __init__(self, pat):
        self.p = pat
        self.i = 0
        self.anch_start = False
        self.anch_end = False

    def peek(self):
        return self.p[self.i] if self.i < len(self.p) else None

    def alt(self, top=False):
        branches = [self.seq(top)]
        while self.peek() == "|":
            self.i += 1
            branches.append(self.seq(top))
        return _union(branches) if len(branches) > 1 else branches[0]

    def seq(self, top):
        items = []
        while self.peek() is not None and self.peek() not in "|)":
            c = self.peek()
            if c == "^":
                if not (top and not items):
                    raise Unsupported("^ not at start")
                self.i += 1
                items.append(("anchor^",))
                continue
            if c == "$":
                self.i += 1
                if self.peek() is not None and self.peek() not in "|)":
                    raise Unsupported("$ not at end")
                items.append(("anchor$",))
                continue
            items.append(self.quant(self.atom()))
        return items_to_re(items, top)

    def atom(self):
        c = self.peek()
        self.i += 1
        if c == "(":
            if self.p[self.i : self.i + 2] == "?:":
                self.i += 2
            elif self.peek() == "?":
                raise Unsupported("group flags")
            r = self.alt(False)
            if self.peek() != ")":
                raise Unsupported("unbalanced")
            self.i += 1
            return r
        if c == "[":
            neg = False
            if self.peek() == "^":
                neg = True
                self.i += 1
            parts = []
            first = True
            while True:
                d = self.peek()
                if d is None:
                    raise Unsupported("unterminated class")
                if d == "]" and not first:
                    self.i += 1
                    break
                first = False
                self.i += 1
                if d == "\\":
                    e = self.peek()
                    self.i += 1
                    parts.extend(_cls_escape(e))
                    continue
                if self.peek() == "-" and self.i + 1 < len(self.p) and self.p[self.i + 1] != "]":
                    hi = self.p[self.i + 1]
                    self.i += 2
                    parts.append(_range(d, hi))
                else:
                    parts.append(_ch(d))
            u = _union(parts)
            if neg:
                return _neg_class(parts)
            return u
        if c == ".":
            return _dot()
        if c == "\\":
            e = self.peek()
            self.i += 1
            return _union(_cls_escape(e))
        if c in "*+?{":
            raise Unsupported("dangling quantifier")
        return _ch(c)

    def quant(self, r):
        c = self.peek()
        if c == "*":
            self.i += 1
            r = z3.Star(r)
        elif c == "+":
            self.i += 1
            r = z3.Plus(r)
        elif c == "?":
            self.i += 1
            r = z3.Option(r)
        elif c == "{":
            raise Unsupported("{m,n}")
        if self.peek() == "?":
            # non-greedy: same language
            self.i += 1
        return r


def items_to_re(items, top):
    if not top:
        for it in items:
            if isinstance(it, tuple):
                raise Unsupported("anchor inside group")
        if not items:
            return z3.Re(z3.StringVal(""))
        return z3.Concat(*items) if len(items) > 1 else items[0]
    start = bool(items) and isinstance(items[0], tuple) and items[0] == ("anchor^",)
    end = bool(items) and isinstance(items[-1], tuple) and items[-1] == ("anchor$",)
    core = [it for it in items if not isinstance(it, tuple)]
    if len([it for it in items if isinstance(it, tuple)]) != int(start) + int(end):
        raise Unsupported("anchor in the middle")
    return ("top", start, end, core)


def _finish(branch, mode):
    """branch = ("top", start, end, core-items); mode in search|match|fullmatch."""
    _, start, end, core = branch
    parts = []
    if mode == "search" and not start:
        parts.append(z3.Full(RE_SORT))
    parts.extend(core)
    if end:
        parts.append(z3.Option(_ch("\n")))
    else:
        parts.append(z3.Full(RE_SORT))
    if not parts:
        return z3.Re(z3.StringVal(""))
    return z3.Concat(*parts) if len(parts) > 1 else parts[0]


def _compile(pat, mode):
    if isinstance(pat, bytes):
        pat = pat.decode("latin-1")
    p = _P(pat)
    # top-level alternatives each carry their own anchors
    branches = []
    b = p.seq(True)
    branches.append(b)
    while p.peek() == "|":
        p.i += 1
        branches.append(p.seq(True))
    if p.peek() is not None:
        raise Unsupported("trailing %r" % p.peek())
    res = [_finish(b, mode) for b in branches]
    return _union(res)


_cache = {}


def compile_search(pat):
    k = ("s", pat)
    if k not in _cache:
        _cache[k] = _compile(pat, "search")
    return _cache[k]


def compile_match(pat):
    k = ("m", pat)
    if k not in _cache:
        _cache[k] = _compile(pat, "match")
    return _cache[k]
