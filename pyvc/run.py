"""Property-level driver: collect targets, generate VCs, discharge, replay, report."""
import glob
import hashlib
import importlib.util
import json
import os
import sys
import time
import traceback

import z3

from . import solve
from .engine import OutOfSubset
from .world import World, VERIF
from .extract import DROPPED, Repo


def load_world(repo_root=None):
    w = World(Repo(repo_root))
    for path in sorted(glob.glob(os.path.join(VERIF, "contracts", "c*.py"))):
        spec = importlib.util.spec_from_file_location("contracts_" + os.path.basename(path)[:-3], path)
        mod = importlib.util.module_from_spec(spec)
        spec.loader.exec_module(mod)
        mod.register(w)
    return w


class Obligation:
    def __init__(self, name):
        self.name = name
        self.vcs = []
        self.kind = None
        self.note = ""
        self.target = None

    @property
    def status(self):
        sts = [v.status for v in self.vcs]
        if any(s == "sat" for s in sts):
            return "refuted"
        if any(s != "unsat" for s in sts):
            return "undecided"
        return "discharged"


def targets_for(world, prop):
    seen = set()
    out = []
    for (q, cls), c in sorted(world.contracts.items(), key=lambda kv: (kv[0][0], kv[0][1] or "")):
        if prop not in c.props or c.assumed or (c.inline and not c.ensures):
            continue
        key = (id(c), cls)
        if key in seen:
            continue
        seen.add(key)
        out.append((c, cls))
    return out


def lemma_vcs(world, lem):
    """A lemma is verified like a function with an empty body."""
    from .engine import Engine, Frame

    eng = Engine(world, "lemma:" + lem.name)
    eng.cur_label = "lemma:" + lem.name
    eng.contract = None
    eng.modifies = None
    eng.global_types = {}

    def body(eng):
        eng.gstate = {}
        eng.frame_stack = []
        eng.in_callee_model = False
        eng.named_objs = {}
        locs = {}
        for decl in lem.forall:
            n, ty = decl.split(":")
            locs[n.strip()] = eng.fresh(ty.strip(), n.strip())
        fr = Frame(None, None, locs, "spec/specs.py")
        for h in lem.hyp:
            eng.assume(eng.truth(eng.eval_str(h, fr)))
        for i, g in enumerate(lem.goal):
            eng.oblige("lemma:%s[%d]" % (lem.name, i), eng.truth(eng.eval_str(g, fr)), kind="lemma", note=g)

    eng.run_all(body)
    return eng


def run_property(prop, tier="quick", repo_root=None, verbose=False):
    t0 = time.time()
    world = load_world(repo_root)
    report = {
        "property": prop,
        "functions": [],
        "undecided": [],
        "obligations": {},
        "assumptions": set(),
        "inlined": set(),
        "canaries": [],
        "npaths": 0,
    }
    obligations = {}
    engines = []

    def add_vcs(eng, target):
        for vc in eng.vcs.values():
            ob = obligations.setdefault(vc.name, Obligation(vc.name))
            ob.vcs.append(vc)
            ob.kind = vc.kind
            ob.note = vc.note or ob.note
            ob.target = target
        report["assumptions"].update(eng.assumptions_used)
        report["inlined"].update(eng.inlined)
        report["npaths"] += eng.npaths

    canary_vcs = []
    for c, cls in targets_for(world, prop):
        fi = world.repo.get(c.qualname)
        tname = "%s%s" % (c.qualname, "" if cls is None or (fi and cls == fi.cls) else " [self: %s]" % cls)
        try:
            eng = world.verify_target(c, cls)
            add_vcs(eng, tname)
            report["functions"].append({
                "function": tname,
                "sha256": fi.sha if fi else None,
                "statements": fi.nstmts() if fi else 0,
                "paths": eng.npaths,
                "vcs": len(eng.vcs),
                "callees_by_contract": sorted(eng.callees_by_contract),
                "inlined": sorted(eng.inlined),
            })
            if c.canary:
                ceng = world.verify_target(c, cls, canary=True)
                for vc in ceng.vcs.values():
                    canary_vcs.append((tname, vc))
        except OutOfSubset as ex:
            report["undecided"].append({"function": tname, "reason": "out-of-subset: %s" % ex})
        except RecursionError as ex:
            report["undecided"].append({"function": tname, "reason": "recursion limit"})
    for name, lem in sorted(world.lemmas.items()):
        if prop in lem.props:
            try:
                eng = lemma_vcs(world, lem)
                add_vcs(eng, "lemma:" + name)
            except OutOfSubset as ex:
                report["undecided"].append({"function": "lemma:" + name, "reason": "out-of-subset: %s" % ex})
    # AST-level (syntactic frame / structure) obligations
    ast_results = []
    for (name, props, fn, note) in world.astchecks:
        if prop in props:
            try:
                ok, detail = fn(world)
            except Exception as ex:  # a crash of a syntactic check is a checker error
                raise
            ast_results.append({"name": name, "ok": ok, "detail": detail, "note": note})
    allvcs = [vc for ob in obligations.values() for vc in ob.vcs]
    solve.discharge(allvcs + [vc for _, vc in canary_vcs])
    for tname, vc in canary_vcs:
        report["canaries"].append({"function": tname, "canary": vc.note, "status": vc.status})
    report["obligations"] = obligations
    report["ast"] = ast_results
    report["wall_s"] = time.time() - t0
    report["world"] = world
    return report
