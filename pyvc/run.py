"""Property-level driver: collect targets, generate VCs, discharge (in a process pool, one job
per function under contract), aggregate."""
import ast
import glob
import importlib.util
import multiprocessing as mp
import os
import sys
import time
import traceback

import z3

from . import solve
from .engine import OutOfSubset
from .world import World, VERIF
from .extract import Repo

_WORLD = None


def load_world(repo_root=None):
    w = World(Repo(repo_root))
    for path in sorted(glob.glob(os.path.join(VERIF, "contracts", "c*.py"))):
        spec = importlib.util.spec_from_file_location("contracts_" + os.path.basename(path)[:-3], path)
        mod = importlib.util.module_from_spec(spec)
        spec.loader.exec_module(mod)
        mod.register(w)
    for fin in w.finalizers:
        fin(w)
    return w


class VCRec:
    """Plain-data record of a discharged VC (picklable)."""

    def __init__(self, vc):
        self.name = vc.name
        self.kind = vc.kind
        self.site = vc.site
        self.note = vc.note
        self.status = vc.status
        self.backend = vc.backend
        self.time = vc.time
        self.model = vc.model
        interesting = vc.status != "unsat"
        self.pc_strs = [c.sexpr()[:300] for c in vc.pc][:80] if interesting else []
        self.goal_str = vc.goal.sexpr()[:1500] if interesting else ""
        self.smt2_head = ""
        if interesting or (vc.kind in ("ensures", "lemma") and vc.backend not in ("simplifier",)):
            s = z3.Solver()
            for c in vc.pc[-6:]:
                s.add(c)
            s.add(z3.Not(vc.goal))
            self.smt2_head = s.to_smt2()[:900]
        self.reachable = None


class Obligation:
    def __init__(self, name):
        self.name = name
        self.vcs = []
        self.kind = None
        self.note = ""
        self.target = None

    @property
    def status(self):
        sts = [v.status for v in self.vcs]
        if any(s == "sat" for s in sts):
            return "refuted"
        if any(s != "unsat" for s in sts):
            return "undecided"
        return "discharged"


def dispatch_signature(world, fi, cls):
    """What `self.<name>` resolves to for this class: classes with equal signatures execute
    the same code in this function (and in everything it calls on self), so one verification
    covers them."""
    sig = []
    seen = set()
    todo = [fi]
    while todo:
        f = todo.pop()
        if f.qualname in seen:
            continue
        seen.add(f.qualname)
        for n in ast.walk(f.node):
            if isinstance(n, ast.Attribute) and isinstance(n.value, ast.Name) and n.value.id == "self":
                m = world.repo.resolve_method(cls, n.attr)
                if m is not None:
                    sig.append((n.attr, m.qualname))
                    c = world.find_contract(m.qualname, cls)
                    if c is None or c.inline or m.qualname in world.inline_ok:
                        todo.append(m)
                else:
                    ca = world.repo.class_attr(cls, n.attr)
                    if ca is not None:
                        sig.append((n.attr, ast.dump(ca)))
            if isinstance(n, ast.Call) and isinstance(n.func, ast.Name) and n.func.id == "type":
                sig.append(("type", cls))
            if (isinstance(n, ast.Attribute) and isinstance(n.value, ast.Call) and isinstance(n.value.func, ast.Name)
                    and n.value.func.id == "super" and f.cls):
                m = world.repo.resolve_method(cls, n.attr, after=f.cls)
                sig.append(("super." + n.attr, m.qualname if m else None))
                if m is not None:
                    c = world.find_contract(m.qualname, cls)
                    if c is None or c.inline or m.qualname in world.inline_ok:
                        todo.append(m)
    return tuple(sorted(set(sig)))


def jobs_for(world, prop):
    """[(kind, key, covers)]: targets deduplicated by dispatch signature."""
    seen = set()
    groups = {}
    order = []
    for (q, cls), c in sorted(world.contracts.items(), key=lambda kv: (kv[0][0], kv[0][1] or "")):
        if prop not in c.props or c.assumed or (c.inline and not c.ensures):
            continue
        key = (id(c), cls)
        if key in seen:
            continue
        seen.add(key)
        fi = world.repo.get(q)
        if fi is None or cls is None or cls.startswith("<"):
            order.append(("target", (q, cls), [cls]))
            continue
        uses_type = any(("type(self)" in cl) for cl in c.ensures + c.requires)
        sig = (id(c), dispatch_signature(world, fi, cls), cls if uses_type else None)
        if sig in groups:
            groups[sig][2].append(cls)
        else:
            job = ("target", (q, cls), [cls])
            groups[sig] = job
            order.append(job)
    for name, lem in sorted(world.lemmas.items()):
        if prop in lem.props:
            order.append(("lemma", name, []))
    return order


def lemma_engine(world, lem):
    """A lemma is verified like a function with an empty body."""
    from .engine import Engine, Frame

    eng = Engine(world, "lemma:" + lem.name)
    eng.cur_label = "lemma:" + lem.name
    eng.contract = None
    eng.modifies = None
    eng.global_types = {}

    def body(eng):
        eng.gstate = {}
        eng.frame_stack = []
        eng.in_callee_model = False
        eng.named_objs = {}
        locs = {}
        for decl in lem.forall:
            n, ty = decl.split(":")
            locs[n.strip()] = eng.fresh(ty.strip(), n.strip())
        fr = Frame(None, None, locs, "spec/specs.py")
        for h in lem.hyp:
            eng.assume(eng.eval_merged(lambda h=h: eng.truth(eng.eval_str(h, fr))))
        for i, g in enumerate(lem.goal):
            eng.oblige("lemma:%s[%d]" % (lem.name, i), eng.eval_merged(lambda g=g: eng.truth(eng.eval_str(g, fr))), kind="lemma", note=g)

    eng.run_all(body)
    return eng


def _reachable(vcs):
    """Some normal exit has a satisfiable path condition (checked by a killable back end)."""
    for v in sorted(vcs, key=lambda v: len(v.pc))[:24]:
        s = z3.Solver()
        for c in v.pc:
            s.add(c)
        st, _, _ = solve.cli_check(s.to_smt2())
        if st != "unsat":
            return True
    return False


def run_job(job):
    """Executed in a worker process."""
    global _WORLD
    world = _WORLD
    kind, key, covers = job
    t0 = time.time()
    out = {"job": job, "vcs": [], "canary": [], "undecided": None, "assumptions": [], "inlined": [], "paths": 0,
           "function": None, "reachable": True, "error": None}
    try:
        if kind == "lemma":
            eng = lemma_engine(world, world.lemmas[key])
            tname = "lemma:" + key
            engs = [(eng, False)]
        else:
            q, cls = key
            c = world.contracts[(q, cls)] if (q, cls) in world.contracts else (world.find_contract(q, cls) if cls else world.contracts[(q, None)])
            fi = world.repo.get(q)
            tname = "%s%s" % (q, "" if cls is None or (fi and cls == fi.cls) else " [self: %s]" % cls)
            eng = world.verify_target(c, cls)
            engs = [(eng, False)]
            if c.canary:
                engs.append((world.verify_target(c, cls, canary=True), True))
            out["function"] = {
                "function": tname,
                "covers_self_classes": [x for x in covers if x],
                "sha256": fi.sha if fi else None,
                "statements": fi.nstmts() if fi else 0,
                "paths": eng.npaths,
                "vcs": len(eng.vcs),
                "callees_by_contract": sorted(eng.callees_by_contract),
                "inlined": sorted(eng.inlined),
            }
        out["target"] = tname
        for eng, is_canary in engs:
            vcs = list(eng.vcs.values())
            solve.discharge(vcs, jobs=1, inline_heavy=True, stop_at_sat=is_canary)
            if is_canary:
                out["canary"] = [(v.note, v.status) for v in vcs if v.status is not None]
            else:
                normal = [v for v in vcs if v.kind in ("ensures", "lemma")]
                if normal:
                    out["reachable"] = _reachable(normal)
                elif getattr(eng, "exits", 1) == 0:
                    out["reachable"] = False  # no path reached the end of the function: contradictory precondition
                out["vcs"] = [VCRec(v) for v in vcs]
                if getattr(eng, "incomplete", None):
                    # some path left the subset: nothing is proved for this function, but refutations found on the
                    # paths that were executed stand
                    out["undecided"] = "out-of-subset: %s" % eng.incomplete
                    out["vcs"] = [VCRec(v) for v in vcs if v.status == "sat"]
                    out["reachable"] = True
                out["assumptions"] = sorted(eng.assumptions_used)
                out["inlined"] = sorted(eng.inlined)
                out["paths"] = eng.npaths
    except OutOfSubset as ex:
        out["undecided"] = "out-of-subset: %s" % ex
        out.setdefault("target", str(key))
    except RecursionError:
        out["undecided"] = "recursion limit"
        out.setdefault("target", str(key))
    except (AttributeError, TypeError, KeyError, IndexError, ValueError, z3.Z3Exception) as ex:
        # the executor met a construct its value model does not cover: the function is outside the subset
        tb = traceback.extract_tb(sys.exc_info()[2])[-1]
        out["undecided"] = "out-of-subset: executor limitation (%s: %s at %s:%d)" % (type(ex).__name__, ex, os.path.basename(tb.filename), tb.lineno)
        out.setdefault("target", str(key))
    except Exception:
        out["error"] = traceback.format_exc()
        out.setdefault("target", str(key))
    out["wall"] = time.time() - t0
    return out


def _child(job, conn):
    try:
        conn.send(run_job(job))
    except BaseException:
        conn.send({"job": job, "vcs": [], "canary": [], "undecided": None, "assumptions": [], "inlined": [], "paths": 0,
                   "function": None, "reachable": True, "error": traceback.format_exc(), "target": str(job[1]), "wall": 0})
    finally:
        conn.close()


def run_jobs(joblist, nproc, limit_s):
    """One forked process per job, at most nproc at a time, each killed at a hard wall-clock limit
    (a killed job is *undecided*, never a violation)."""
    ctx = mp.get_context("fork")
    pending = list(enumerate(joblist))
    running = {}
    results = [None] * len(joblist)
    while pending or running:
        while pending and len(running) < nproc:
            i, job = pending.pop(0)
            pr, pw = ctx.Pipe(duplex=False)
            p = ctx.Process(target=_child, args=(job, pw))
            p.start()
            pw.close()
            running[i] = (p, pr, time.time(), job)
        time.sleep(0.05)
        for i in list(running):
            p, pr, t0, job = running[i]
            if pr.poll():
                try:
                    results[i] = pr.recv()
                except EOFError:
                    results[i] = {"job": job, "vcs": [], "canary": [], "undecided": None, "assumptions": [], "inlined": [], "paths": 0,
                                  "function": None, "reachable": True, "error": "worker died", "target": str(job[1]), "wall": time.time() - t0}
                p.join()
                del running[i]
            elif not p.is_alive():
                p.join()
                results[i] = {"job": job, "vcs": [], "canary": [], "undecided": None, "assumptions": [], "inlined": [], "paths": 0,
                              "function": None, "reachable": True, "error": "worker exited with code %s" % p.exitcode, "target": str(job[1]), "wall": time.time() - t0}
                del running[i]
            elif time.time() - t0 > limit_s:
                p.kill()
                p.join()
                os.system("pkill -P %d 2>/dev/null" % p.pid)
                results[i] = {"job": job, "vcs": [], "canary": [], "undecided": "job exceeded the wall-clock limit of %ds (solver budget)" % limit_s,
                              "assumptions": [], "inlined": [], "paths": 0, "function": None, "reachable": True, "error": None,
                              "target": str(job[1]), "wall": time.time() - t0}
                del running[i]
    return results


def run_property(prop, tier="quick", repo_root=None, verbose=False, jobs=None):
    global _WORLD
    t0 = time.time()
    world = load_world(repo_root)
    _WORLD = world
    report = {"property": prop, "functions": [], "undecided": [], "obligations": {}, "assumptions": set(),
              "inlined": set(), "canaries": [], "npaths": 0, "unreachable": [], "errors": []}
    joblist = jobs_for(world, prop)
    nproc = jobs or int(os.environ.get("PYVC_JOBS", "0")) or min(16, os.cpu_count() or 4)
    results = run_jobs(joblist, nproc, float(os.environ.get("PYVC_JOB_LIMIT_S", "1500" if tier == "thorough" else "420")))
    obligations = {}
    for r in results:
        if r["error"]:
            report["errors"].append((r["target"], r["error"]))
            continue
        if r["undecided"]:
            report["undecided"].append({"function": r["target"], "reason": r["undecided"]})
            # refutations found on fully executed paths of a function that left the subset elsewhere still stand
            for v in r["vcs"]:
                if v.status == "sat":
                    ob = obligations.setdefault(v.name, Obligation(v.name))
                    ob.vcs.append(v)
                    ob.kind = v.kind
                    ob.note = v.note or ob.note
                    ob.target = r["target"]
            continue
        if r["function"]:
            r["function"]["wall_s"] = round(r["wall"], 2)
            report["functions"].append(r["function"])
        for v in r["vcs"]:
            ob = obligations.setdefault(v.name, Obligation(v.name))
            ob.vcs.append(v)
            ob.kind = v.kind
            ob.note = v.note or ob.note
            ob.target = r["target"]
        for note, st in r["canary"]:
            report["canaries"].append({"function": r["target"], "canary": note, "status": st})
        if not r["reachable"]:
            report["unreachable"].append(r["target"])
        report["assumptions"].update(r["assumptions"])
        report["inlined"].update(r["inlined"])
        report["npaths"] += r["paths"]
    ast_results = []
    for (name, props, fn, note) in world.astchecks:
        if prop in props:
            ok, detail = fn(world)
            ast_results.append({"name": name, "ok": ok, "detail": detail, "note": note})
    report["obligations"] = obligations
    report["ast"] = ast_results
    report["wall_s"] = time.time() - t0
    report["world"] = world
    return report
