"""Counter-model -> replay file -> native re-execution on the real code (under /venv/bin/python)."""
import json
import os
import re
import subprocess

from . import solve
from .world import VERIF

HARNESS = os.path.join(VERIF, "replay", "harness.py")
PY = os.environ.get("PYVC_NATIVE_PY", "/venv/bin/python")


def write_and_replay(prop, ob, rep, repo, replay_dir):
    vc = next(v for v in ob.vcs if v.status == "sat")
    path = os.path.join(replay_dir, re.sub(r"[^A-Za-z0-9_.-]", "_", ob.name) + ".json")
    data = {
        "property": prop,
        "obligation": ob.name,
        "kind": ob.kind,
        "function": ob.target,
        "clause": ob.note,
        "site_line": vc.site,
        "model": vc.model or {},
        "verifier_output": {"status": vc.status, "backend": vc.backend, "solver_s": round(vc.time, 3)},
        "path_condition": vc.pc_strs,
        "goal": vc.goal_str,
        "smt2_head": vc.smt2_head,
        "repo": repo,
    }
    json.dump(data, open(path, "w"), indent=1, default=str)
    return path, rerun(path, repo, quiet=True, as_status=True)


def rerun(path, repo, quiet=False, as_status=False):
    env = dict(os.environ)
    env["PYTHONPATH"] = repo + os.pathsep + VERIF
    env["PYVC_REPO"] = repo
    try:
        p = subprocess.run([PY, HARNESS, path], cwd=repo, env=env, capture_output=True, text=True, timeout=300)
        out = p.stdout + p.stderr
        code = p.returncode
    except subprocess.TimeoutExpired:
        out, code = "replay timed out", 12
    status = {10: "confirmed", 11: "disagrees", 13: "harness-error"}.get(code, "no-failure-found")
    try:
        d = json.load(open(path))
        d["replay"] = {"status": status, "output": out[-4000:]}
        json.dump(d, open(path, "w"), indent=1, default=str)
    except Exception:
        pass
    if as_status:
        return status
    print(out)
    print("replay: %s" % status)
    return {"confirmed": 1, "disagrees": 0}.get(status, 2)


def function_of(target, world):
    """Qualified function name for an undecided target / a missing obligation name."""
    if target.startswith("obligation:"):
        name = target[len("obligation:"):]
        if name.startswith(("ast:", "lemma:")):
            return None
        head = name.split(".call[")[0]
        # "<Class>::<Def>.<fn>.<clause>"  or  "<Def>.<fn>.<clause>" or "<fn>.<clause>"
        if "::" in head:
            head = head.split("::", 1)[1]
        parts = head.split(".")
        for q in world.repo.funcs:
            tail = q.split("::", 1)[1]
            if len(parts) >= 2 and tail == ".".join(parts[:2]):
                return q
        for q in world.repo.funcs:
            tail = q.split("::", 1)[1]
            if tail == parts[0]:
                return q
        return None
    m = re.match(r"\('([^']+)',", target)
    if m:
        return m.group(1)
    return target.split(" [self:")[0] if "::" in target else None


def standin(prop, fn, reason, repo, replay_dir):
    path = os.path.join(replay_dir, "standin_" + re.sub(r"[^A-Za-z0-9_.-]", "_", fn) + ".json")
    data = {"property": prop, "obligation": "bounded stand-in for %s" % fn, "kind": "standin", "function": fn,
            "clause": "", "model": {}, "verifier_output": {"status": "undecided", "reason": reason}, "repo": repo,
            "note": "the function is outside the verifier's reach on this tree; its native scenario harness was run instead (bounded, not a proof)"}
    json.dump(data, open(path, "w"), indent=1, default=str)
    return path, rerun(path, repo, quiet=True, as_status=True)
