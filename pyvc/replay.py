"""Counter-model -> replay file -> native re-execution on the real code (under /venv/bin/python)."""
import json
import os
import re
import subprocess

from . import solve
from .world import VERIF

HARNESS = os.path.join(VERIF, "replay", "harness.py")
PY = os.environ.get("PYVC_NATIVE_PY", "/venv/bin/python")


def write_and_replay(prop, ob, rep, repo, replay_dir):
    vc = next(v for v in ob.vcs if v.status == "sat")
    path = os.path.join(replay_dir, re.sub(r"[^A-Za-z0-9_.-]", "_", ob.name) + ".json")
    data = {
        "property": prop,
        "obligation": ob.name,
        "kind": ob.kind,
        "function": ob.target,
        "clause": ob.note,
        "site_line": vc.site,
        "model": vc.model or {},
        "verifier_output": {"status": vc.status, "backend": vc.backend, "solver_s": round(vc.time, 3)},
        "path_condition": vc.pc_strs,
        "goal": vc.goal_str,
        "smt2_head": vc.smt2_head,
        "repo": repo,
    }
    json.dump(data, open(path, "w"), indent=1, default=str)
    return path, rerun(path, repo, quiet=True, as_status=True)


def rerun(path, repo, quiet=False, as_status=False):
    env = dict(os.environ)
    env["PYTHONPATH"] = repo + os.pathsep + VERIF
    env["PYVC_REPO"] = repo
    try:
        p = subprocess.run([PY, HARNESS, path], cwd=repo, env=env, capture_output=True, text=True, timeout=300)
        out = p.stdout + p.stderr
        code = p.returncode
    except subprocess.TimeoutExpired:
        out, code = "replay timed out", 12
    status = {10: "confirmed", 11: "disagrees"}.get(code, "norealiser")
    try:
        d = json.load(open(path))
        d["replay"] = {"status": status, "output": out[-4000:]}
        json.dump(d, open(path, "w"), indent=1, default=str)
    except Exception:
        pass
    if as_status:
        return status
    print(out)
    print("replay: %s" % status)
    return {"confirmed": 1, "disagrees": 0}.get(status, 2)
