"""Discharge verification conditions: z3 API first, then cvc5 (--strings-exp), then the z3 CLIs.

A VC (pc, goal) is *discharged* iff  pc /\\ not goal  is unsat for at least one back end.
`sat` gives a counter-model; `unknown`/timeout on every back end is *undecided* and is
never reported as a violation.
"""
import os
import re
import subprocess
import tempfile
import time
from concurrent.futures import ProcessPoolExecutor

import z3

Z3_QUICK_MS = int(os.environ.get("PYVC_Z3_QUICK_MS", "3000"))
Z3_FULL_MS = int(os.environ.get("PYVC_Z3_FULL_MS", "20000"))
CVC5_S = int(os.environ.get("PYVC_CVC5_S", "30"))
Z3CLI_S = int(os.environ.get("PYVC_Z3CLI_S", "30"))


def vc_smt2(vc):
    s = z3.Solver()
    for c in vc.pc:
        s.add(c)
    s.add(z3.Not(vc.goal))
    return s.to_smt2()


def model_to_dict(m):
    out = {}
    for d in m.decls():
        if d.arity() != 0:
            continue
        v = m[d]
        try:
            if z3.is_string_value(v):
                out[d.name()] = _unesc(v.as_string())
            elif z3.is_int_value(v):
                out[d.name()] = v.as_long()
            elif z3.is_true(v) or z3.is_false(v):
                out[d.name()] = z3.is_true(v)
            elif z3.is_rational_value(v):
                out[d.name()] = float(v.as_fraction())
            else:
                out[d.name()] = str(v)
        except Exception:
            out[d.name()] = str(v)
    return out


def _unesc(s):
    out = []
    i = 0
    while i < len(s):
        if s.startswith("\\u{", i):
            j = s.index("}", i)
            out.append(chr(int(s[i + 3 : j], 16)))
            i = j + 1
        else:
            out.append(s[i])
            i += 1
    return "".join(out)


def quick(vc, timeout_ms=None):
    t0 = time.time()
    s = z3.Solver()
    s.set("timeout", timeout_ms or Z3_QUICK_MS)
    for c in vc.pc:
        s.add(c)
    s.add(z3.Not(vc.goal))
    r = s.check()
    dt = time.time() - t0
    if r == z3.unsat:
        return "unsat", "z3-api", dt, None
    if r == z3.sat:
        return "sat", "z3-api", dt, model_to_dict(s.model())
    return "unknown", "z3-api", dt, None


def _run(cmd, text, timeout):
    with tempfile.NamedTemporaryFile("w", suffix=".smt2", delete=False, dir=os.environ.get("PYVC_TMP", "/var/tmp")) as fh:
        fh.write(text)
        path = fh.name
    try:
        p = subprocess.run(cmd + [path], capture_output=True, text=True, timeout=timeout + 5)
        return p.stdout
    except subprocess.TimeoutExpired:
        return "timeout"
    finally:
        os.unlink(path)


_DEF = re.compile(r'\(define-fun\s+(\|[^|]*\||\S+)\s+\(\)\s+(\S+)\s+(.*)\)\s*$')


def parse_model(out):
    m = {}
    for line in out.splitlines():
        mm = _DEF.match(line.strip())
        if not mm:
            continue
        name, sort, val = mm.group(1).strip("|"), mm.group(2), mm.group(3).strip()
        if sort == "String" and val.startswith('"'):
            v = val[1:-1].replace('""', '"')
            m[name] = _unesc(v)
        elif sort == "Int":
            mneg = re.match(r"\(-\s+(\d+)\)", val)
            m[name] = -int(mneg.group(1)) if mneg else (int(val) if re.match(r"-?\d+$", val) else val)
        elif sort == "Bool":
            m[name] = val == "true"
        else:
            m[name] = val
    return m


def heavy(text):
    """Run in a worker process: cvc5, then z3-new CLI, then z3 4.8 CLI."""
    t0 = time.time()
    # z3 API with the full budget and a different seed
    try:
        s = z3.Solver()
        s.set("timeout", Z3_FULL_MS)
        s.set("random_seed", 7)
        s.from_string(text)
        r = s.check()
        if r == z3.unsat:
            return "unsat", "z3-api", time.time() - t0, None
        if r == z3.sat:
            return "sat", "z3-api", time.time() - t0, model_to_dict(s.model())
    except z3.Z3Exception:
        pass
    body = text.replace("(set-info :status unknown)", "")
    cv = "(set-logic ALL)\n(set-option :produce-models true)\n" + body + "\n(get-model)\n"
    out = _run(["/usr/bin/cvc5", "--strings-exp", "--tlimit=%d" % (CVC5_S * 1000)], cv, CVC5_S)
    first = out.strip().splitlines()[0] if out.strip() else ""
    if first == "unsat":
        return "unsat", "cvc5", time.time() - t0, None
    if first == "sat":
        return "sat", "cvc5", time.time() - t0, parse_model(out)
    for exe, tag in (("z3-new", "z3-cli-5.1"), ("/usr/bin/z3", "z3-cli-4.8")):
        out = _run([exe, "-T:%d" % Z3CLI_S, "smt.random_seed=11"], body + "\n", Z3CLI_S)
        first = out.strip().splitlines()[0] if out.strip() else ""
        if first == "unsat":
            return "unsat", tag, time.time() - t0, None
        if first == "sat":
            return "sat", tag, time.time() - t0, {}
    return "unknown", "all", time.time() - t0, None


def discharge(vcs, jobs=None):
    """Fill vc.status/backend/time/model for every VC."""
    jobs = jobs or min(16, os.cpu_count() or 4)
    hard = []
    for vc in vcs:
        if z3.is_true(vc.goal):
            vc.status, vc.backend, vc.time = "unsat", "simplifier", 0.0
            continue
        st, be, dt, model = quick(vc)
        vc.status, vc.backend, vc.time, vc.model = st, be, dt, model
        if st == "unknown":
            hard.append(vc)
    if hard:
        texts = [vc_smt2(vc) for vc in hard]
        with ProcessPoolExecutor(max_workers=jobs) as ex:
            for vc, (st, be, dt, model) in zip(hard, ex.map(heavy, texts)):
                vc.time += dt
                vc.status, vc.backend, vc.model = st, be, model
    return vcs
