"""Discharge verification conditions.

A VC (pc, goal) is *discharged* iff  pc /\\ not goal  is unsat for at least one back end:
  1. simplifier      goal simplified to true while executing
  2. z3-abstract     unsat already in the string-free abstraction (in-process, sound for unsat only)
  3. z3-cli-5.1      `z3-new` on the SMT-LIB text, killed at a hard wall-clock limit
  4. cvc5            `/usr/bin/cvc5 --strings-exp`, likewise
  5. z3-cli-4.8      `/usr/bin/z3` with another seed
z3's string solver does not reliably honour its own timeout, hence all string reasoning runs in
killable subprocesses.  `sat` gives a counter-model; unknown/timeout everywhere is *undecided*
and is never reported as a violation.
"""
import os
import re
import subprocess
import tempfile
import time

import z3

from .abstract import unsat_abstract
from .strlemmas import saturate

Z3_QUICK_S = float(os.environ.get("PYVC_Z3_QUICK_S", "15"))
CVC5_S = float(os.environ.get("PYVC_CVC5_S", "20"))
Z3_FULL_S = float(os.environ.get("PYVC_Z3_FULL_S", "25"))
MAX_UNKNOWN = int(os.environ.get("PYVC_MAX_UNKNOWN", "2"))
SAT_GRACE_S = float(os.environ.get("PYVC_SAT_GRACE_S", "90"))
TMP = os.environ.get("PYVC_TMP", "/var/tmp")


_sat_time = [0.0, 0]


def _saturated(pc):
    t0 = time.time()
    try:
        return list(pc) + saturate(pc)
    except z3.Z3Exception:
        return list(pc)
    finally:
        _sat_time[0] += time.time() - t0
        _sat_time[1] += 1
        if os.environ.get("PYVC_TRACE"):
            import sys
            print("[saturate] total %.1fs over %d calls" % tuple(_sat_time), file=sys.stderr)


def vc_smt2(vc, pc=None):
    s = z3.Solver()
    for c in (pc if pc is not None else vc.pc):
        s.add(c)
    s.add(z3.Not(vc.goal))
    return s.to_smt2()


def _unesc(s):
    out = []
    i = 0
    while i < len(s):
        if s.startswith("\\u{", i):
            j = s.index("}", i)
            out.append(chr(int(s[i + 3 : j], 16)))
            i = j + 1
        else:
            out.append(s[i])
            i += 1
    return "".join(out)


# ---- tiny s-expression reader for (get-model) output ------------------------------------------
def _tokens(text):
    i, n = 0, len(text)
    while i < n:
        c = text[i]
        if c.isspace():
            i += 1
        elif c in "()":
            yield c
            i += 1
        elif c == '"':
            j = i + 1
            buf = []
            while j < n:
                if text[j] == '"':
                    if j + 1 < n and text[j + 1] == '"':
                        buf.append('"')
                        j += 2
                        continue
                    break
                buf.append(text[j])
                j += 1
            yield ("str", "".join(buf))
            i = j + 1
        elif c == "|":
            j = text.index("|", i + 1)
            yield text[i + 1 : j]
            i = j + 1
        elif c == ";":
            while i < n and text[i] != "\n":
                i += 1
        else:
            j = i
            while j < n and not text[j].isspace() and text[j] not in "()":
                j += 1
            yield text[i:j]
            i = j


def _parse(tokens):
    stack = [[]]
    for t in tokens:
        if t == "(":
            stack.append([])
        elif t == ")":
            x = stack.pop()
            stack[-1].append(x)
        else:
            stack[-1].append(t)
    return stack[0]


def _val(v):
    if isinstance(v, tuple):
        return _unesc(v[1])
    if isinstance(v, list):
        if len(v) == 2 and v[0] == "-":
            x = _val(v[1])
            return -x if isinstance(x, (int, float)) else str(v)
        if len(v) == 3 and v[0] == "/":
            try:
                return float(_val(v[1])) / float(_val(v[2]))
            except Exception:
                return str(v)
        if len(v) >= 2 and v[0] == "str.++":
            parts = [_val(x) for x in v[1:]]
            if all(isinstance(p, str) for p in parts):
                return "".join(parts)
        return str(v)
    if v == "true":
        return True
    if v == "false":
        return False
    if re.match(r"-?\d+$", v):
        return int(v)
    if re.match(r"-?\d+\.\d+$", v):
        return float(v)
    return v


def parse_model(out):
    m = {}
    try:
        sx = _parse(_tokens(out))
    except Exception:
        return m

    def walk(x):
        if isinstance(x, list):
            if len(x) == 5 and x[0] == "define-fun" and x[2] == []:
                m[x[1]] = _val(x[4])
            else:
                for y in x:
                    walk(y)

    walk(sx)
    return m


def _run(cmd, text, timeout):
    t0 = time.time()
    try:
        return _run0(cmd, text, timeout)
    finally:
        if os.environ.get("PYVC_TRACE"):
            import sys
            print("[solve] %s %.1fs" % (cmd[0], time.time() - t0), file=sys.stderr)


def _run0(cmd, text, timeout):
    with tempfile.NamedTemporaryFile("w", suffix=".smt2", delete=False, dir=TMP) as fh:
        fh.write(text)
        path = fh.name
    try:
        p = subprocess.run(cmd + [path], capture_output=True, text=True, timeout=timeout + 2)
        return p.stdout
    except subprocess.TimeoutExpired:
        return "timeout"
    finally:
        try:
            os.unlink(path)
        except OSError:
            pass


def _first(out):
    for line in out.splitlines():
        line = line.strip()
        if line in ("sat", "unsat", "unknown", "timeout"):
            return line
    return out.strip().split("\n")[0] if out.strip() else ""


THOROUGH = os.environ.get("VERIF_TIER") == "thorough" or os.environ.get("PYVC_THOROUGH") == "1"


def _race(cmds, timeout):
    """Run several solver command lines on their own input files at once; the first definitive answer
    (sat/unsat) wins and the others are killed.  cmds: [(backend, argv, text, limit_s)]."""
    procs = []
    t0 = time.time()
    for be, argv, text, lim in cmds:
        fh = tempfile.NamedTemporaryFile("w", suffix=".smt2", delete=False, dir=TMP)
        fh.write(text)
        fh.close()
        out = tempfile.NamedTemporaryFile("w+", suffix=".out", delete=False, dir=TMP)
        p = subprocess.Popen(argv + [fh.name], stdout=out, stderr=subprocess.DEVNULL)
        procs.append([be, p, fh.name, out, lim])
    result = None
    try:
        live = list(procs)
        while live and result is None:
            for rec in list(live):
                be, p, path, out, lim = rec
                rc = p.poll()
                if rc is None and time.time() - t0 > lim + 2:
                    p.kill()
                    p.wait()
                    rc = -9
                if rc is not None:
                    live.remove(rec)
                    out.seek(0)
                    txt = out.read()
                    f = _first(txt)
                    if f in ("sat", "unsat"):
                        result = (f, be, txt)
                        break
            if result is None and live:
                time.sleep(0.01)
    finally:
        for be, p, path, out, lim in procs:
            if p.poll() is None:
                p.kill()
                p.wait()
            out.close()
            for fpath in (path, out.name):
                try:
                    os.unlink(fpath)
                except OSError:
                    pass
        if os.environ.get("PYVC_TRACE"):
            import sys
            print("[solve] race %s %.1fs" % (result[:2] if result else None, time.time() - t0), file=sys.stderr)
    return result


def cli_check(text, budget=1.0):
    """Run the external back ends on SMT-LIB text; returns (status, backend, model).
    cvc5 (fast and stable on the string/regex fragment) and z3 5.1 race each other; the thorough tier then
    adds z3 4.8 and z3 5.1 with another seed."""
    body = text.replace("(set-info :status unknown)", "")
    z3text = body + "\n(get-model)\n"
    cv = "(set-logic ALL)\n(set-option :produce-models true)\n" + body + "\n(get-model)\n"
    tc = CVC5_S * budget
    tz = Z3_QUICK_S * budget
    r = _race([("cvc5", ["/usr/bin/cvc5", "--strings-exp", "--tlimit=%d" % int(tc * 1000)], cv, tc),
               ("z3-cli-5.1", ["z3-new", "-T:%d" % max(1, int(tz))], z3text, tz)], max(tc, tz))
    if r is not None:
        f, be, out = r
        return f, be, (parse_model(out) if f == "sat" else None)
    if not THOROUGH:
        return "unknown", "cvc5+z3", None
    out = _run(["/usr/bin/z3", "-T:%d" % int(Z3_FULL_S), "smt.random_seed=11"], z3text, Z3_FULL_S)
    f = _first(out)
    if f == "unsat":
        return "unsat", "z3-cli-4.8", None
    if f == "sat":
        return "sat", "z3-cli-4.8", parse_model(out)
    out = _run(["z3-new", "-T:%d" % int(Z3_FULL_S), "smt.random_seed=5"], z3text, Z3_FULL_S)
    f = _first(out)
    if f == "unsat":
        return "unsat", "z3-cli-5.1", None
    if f == "sat":
        return "sat", "z3-cli-5.1", parse_model(out)
    return "unknown", "all", None


_dump_n = [0]


def discharge_one(vc):
    t0 = time.time()
    if getattr(vc, "fixed_status", None):
        vc.status, vc.backend, vc.time = vc.fixed_status, "none", 0.0
        return
    if z3.is_true(vc.goal):
        vc.status, vc.backend, vc.time = "unsat", "simplifier", 0.0
        return
    try:
        if unsat_abstract(vc.pc, vc.goal):
            vc.status, vc.backend, vc.time = "unsat", "z3-abstract", time.time() - t0
            return
    except (ValueError, z3.Z3Exception):
        pass
    # valid consequences of the path condition (substring order is transitive ...): sound to add, and they let
    # the abstraction or the string solvers close goals such as prefixof(head, selector)
    pc2 = _saturated(vc.pc)
    if len(pc2) > len(vc.pc):
        try:
            if unsat_abstract(pc2, vc.goal):
                vc.status, vc.backend, vc.time = "unsat", "z3-abstract", time.time() - t0
                return
        except (ValueError, z3.Z3Exception):
            pass
    text = vc_smt2(vc, pc2)
    if os.environ.get("PYVC_DUMP"):
        _dump_n[0] += 1
        open(os.path.join(os.environ["PYVC_DUMP"], "vc%d_%04d.smt2" % (os.getpid(), _dump_n[0])), "w").write(text)
    # lemmas are few and carry the hard string reasoning: give them three times the budget so that the
    # verdict does not flip when the machine is busy
    st, be, model = cli_check(text, budget=3.0 if vc.kind == "lemma" else 1.0)
    vc.status, vc.backend, vc.model, vc.time = st, be, model, time.time() - t0
    if os.environ.get("PYVC_TRACE"):
        import sys
        print("[vc] %s %s %s %.1fs site=%s note=%s" % (vc.name, st, be, vc.time, vc.site, vc.note[:100]), file=sys.stderr)


class _Group:
    """All end-of-path obligations of one path, proved as one conjunction first."""

    def __init__(self, vcs):
        self.vcs = vcs
        last = max(vcs, key=lambda v: len(v.pc))
        self.pc = last.pc
        self.goal = z3.And(*[v.goal for v in vcs])


def discharge(vcs, jobs=None, inline_heavy=True, stop_at_sat=False):
    if stop_at_sat:
        for vc in vcs:
            discharge_one(vc)
            if vc.status == "sat":
                break
        return vcs
    groups = {}
    rest = []
    for vc in vcs:
        if getattr(vc, "fixed_status", None):
            vc.status, vc.backend, vc.time = vc.fixed_status, "none", 0.0
        elif z3.is_true(vc.goal):
            vc.status, vc.backend, vc.time = "unsat", "simplifier", 0.0
        elif vc.kind in ("ensures", "on_raise", "raises", "lemma"):
            groups.setdefault(vc.path, []).append(vc)
        else:
            rest.append(vc)
    for path, g in groups.items():
        if len(g) == 1:
            rest.append(g[0])
            continue
        grp = _Group(g)
        t0 = time.time()
        done = False
        try:
            if unsat_abstract(grp.pc, grp.goal):
                be, done = "z3-abstract", True
        except (ValueError, z3.Z3Exception):
            pass
        if not done:
            s = z3.Solver()
            for c in grp.pc:
                s.add(c)
            s.add(z3.Not(grp.goal))
            st, be, model = cli_check(s.to_smt2(), budget=0.25)
            done = st == "unsat"
        if done:
            dt = (time.time() - t0) / len(g)
            for vc in g:
                vc.status, vc.backend, vc.time = "unsat", be, dt
        else:
            rest.extend(g)
    # one counter-model per obligation is enough to report it; the remaining paths of a refuted obligation
    # are not solved (a refuting change would otherwise cost one slow `sat` per path), and once something is
    # refuted the rest of the function gets a bounded amount of further solver time
    refuted = set()
    unknowns = {}
    t_first = None
    for vc in rest:
        if vc.name in refuted or unknowns.get(vc.name, 0) >= MAX_UNKNOWN or (t_first is not None and time.time() - t_first > SAT_GRACE_S):
            vc.status, vc.backend, vc.time = "skipped", "none", 0.0
            continue
        discharge_one(vc)
        if vc.status == "sat":
            refuted.add(vc.name)
            if t_first is None:
                t_first = time.time()
        elif vc.status != "unsat":
            # an obligation left open on several paths is undecided whatever the other paths say
            unknowns[vc.name] = unknowns.get(vc.name, 0) + 1
    return vcs
