"""Models of builtins and of external (standard library / operating system) calls.

Every model that is an *assumed contract* of something outside the repository records
a one-line assumption in eng.assumptions_used; exact encodings of Python semantics
(len, slicing, find, +, ...) do not.
"""
import ast
import sys

import z3

from .values import *  # noqa
from .engine import OutOfSubset, PathEnd, Raised, Frame, exc_isa
from . import rx
from . import strlemmas

BUILTINS = {
    "ascii_digits", "fs_content", "fs_isfile", "fs_isdir", "fs_exists", "markup_safe", "markup_safe_text", "eval", "len", "str", "int", "list", "tuple", "dict", "all", "any", "type", "range", "enumerate", "iter", "next",
    "open", "bool", "max", "min", "sorted", "repr", "abs", "print", "set", "bytes", "ord", "chr", "sum", "zip",
    "isinstance", "hasattr", "getattr", "setattr", "object", "float",
}
BUILTIN_EXC = {
    "Exception", "BaseException", "OSError", "IOError", "KeyError", "IndexError", "ValueError", "TypeError",
    "AttributeError", "StopIteration", "EOFError", "RuntimeError", "NotImplementedError", "AssertionError",
    "UnicodeEncodeError", "UnicodeDecodeError", "UnicodeError", "FileNotFoundError", "PermissionError",
    "BrokenPipeError", "ConnectionResetError", "TimeoutError", "ImportError", "LookupError", "ZeroDivisionError",
}
MODULES = {
    "os", "os.path", "stat", "re", "time", "pickle", "urllib", "urllib.parse", "html", "html.entities", "mimetypes",
    "subprocess", "zipfile", "shelve", "socket", "ssl", "errno", "traceback", "binascii", "io", "typing", "pwd", "grp",
    "sys", "functools", "codecs", "struct", "importlib", "importlib.util", "mailbox", "email", "email.header",
    "configparser", "urllib.error", "urllib.request", "posixpath", "logging", "copy",
}
CLASSES = {
    "ssl.SSLSocket": "ssl.SSLSocket",
    "io.BytesIO": "io.BytesIO",
    "io.StringIO": "io.StringIO",
}
import stat as _stat
import errno as _errno

CONSTS = {
    "stat.ST_MODE": _stat.ST_MODE,
    "stat.ST_MTIME": _stat.ST_MTIME,
    "stat.ST_SIZE": _stat.ST_SIZE,
    "stat.ST_CTIME": _stat.ST_CTIME,
    "stat.S_IXOTH": _stat.S_IXOTH,
    "errno.ECONNRESET": _errno.ECONNRESET,
    "errno.EPIPE": _errno.EPIPE,
    "socket.MSG_PEEK": 2,
}
OBJ_METHODS = {
    "WFile": {"write", "flush", "seek", "readline", "getvalue"},
    "RFile": {"read", "readline", "readlines", "close"},
    "TFile": {"read", "readline", "readlines", "close"},
    "Config": {"get", "getboolean", "getint", "has_option", "set"},
    "Sock": {"recv"},
    "SSLContext": {"wrap_socket", "load_cert_chain"},
    "VFS": {"open", "stat", "isdir", "isfile", "exists", "listdir", "iswritable", "getfspath", "copyto", "unlink"},
}
CTX_CLASSES = {"RFile", "TFile", "WFile", "OpenFile"}

WS_CHARS = [chr(i) for i in range(0x30000) if chr(i).isspace()]


def _re_chars(chars):
    return z3.Union(*[z3.Re(z3.StringVal(c)) for c in chars]) if len(chars) > 1 else z3.Re(z3.StringVal(chars[0]))


_WS_RE = None


def _ranges(chars):
    cs = sorted(ord(c) for c in chars)
    out = []
    for c in cs:
        if out and out[-1][1] == c - 1:
            out[-1][1] = c
        else:
            out.append([c, c])
    return z3.Union(*[z3.Range(z3.StringVal(chr(a)), z3.StringVal(chr(b))) for a, b in out]) if len(out) > 1 else z3.Range(z3.StringVal(chr(out[0][0])), z3.StringVal(chr(out[0][1])))


def ws_re():
    global _WS_RE
    if _WS_RE is None:
        _WS_RE = _ranges(WS_CHARS)
    return _WS_RE


RE_SORT = z3.ReSort(z3.StringSort())


def any_char():
    return z3.AllChar(RE_SORT)


def any_str():
    return z3.Full(RE_SORT)


def complement_ranges(chars, top=0x2FFFF):
    """Regex for one character NOT in `chars`, as an explicit union of ranges (no re.comp)."""
    cs = sorted(set(ord(c) for c in chars))
    out = []
    lo = 0
    for c in cs:
        if c > lo:
            out.append((lo, c - 1))
        lo = c + 1
    if lo <= top:
        out.append((lo, top))
    rs = [z3.Range(z3.StringVal(chr(a)), z3.StringVal(chr(b))) for a, b in out]
    return z3.Union(*rs) if len(rs) > 1 else rs[0]


_NWS = {}


def non_ws(isbytes=False):
    if isbytes not in _NWS:
        _NWS[isbytes] = complement_ranges(list(" \t\n\r\x0b\x0c"), 0xFF) if isbytes else complement_ranges(WS_CHARS)
    return _NWS[isbytes]


def _digit_ranges():
    out = []
    i = 0
    while i < 0x30000:
        if chr(i).isdigit():
            j = i
            while j + 1 < 0x30000 and chr(j + 1).isdigit():
                j += 1
            out.append((i, j))
            i = j + 1
        else:
            i += 1
    return out


_DIGIT_RE = None


def digit_re():
    global _DIGIT_RE
    if _DIGIT_RE is None:
        _DIGIT_RE = z3.Union(*[z3.Range(z3.StringVal(chr(a)), z3.StringVal(chr(b))) for a, b in _digit_ranges()])
    return _DIGIT_RE


ASCII_DIGITS = z3.Range(z3.StringVal("0"), z3.StringVal("9"))
_DECIMAL_RE = None


def decimal_re():
    """Characters with str.isdecimal() (Unicode category Nd, below U+30000): the digits int() accepts."""
    global _DECIMAL_RE
    if _DECIMAL_RE is None:
        out = []
        i = 0
        while i < 0x30000:
            if chr(i).isdecimal():
                j = i
                while j + 1 < 0x30000 and chr(j + 1).isdecimal():
                    j += 1
                out.append((i, j))
                i = j + 1
            else:
                i += 1
        _DECIMAL_RE = z3.Union(*[z3.Range(z3.StringVal(chr(a)), z3.StringVal(chr(b))) for a, b in out])
    return _DECIMAL_RE


def S(x):
    return zstr(x)


def sfun(name, *sorts):
    return z3.Function(name, *sorts)


STR = z3.StringSort()
INT = z3.IntSort()
BOOL = z3.BoolSort()


def ghost_init(eng, name, ty):
    if ty == "trace":
        return VList([], elemty={"opened_paths": "str", "open_files": "obj:RFile"}.get(name))
    if ty == "log":
        return VList([])
    return eng.fresh(ty, "ghost_" + name)


def oserror_args(eng, hint):
    """Arguments of an OSError raised by the platform: one argument (socket.timeout('timed out'))
    or (errno, strerror)."""
    eng.assumptions_used.add("OSError raised by the OS/socket layer has args (msg,) [socket.timeout] or (errno, strerror)")
    return LazyOSArgs(hint)


def force_oserror_args(eng, exc):
    if not isinstance(exc.args, LazyOSArgs):
        return exc.args
    hint = exc.args.hint
    exc.args = _oserror_args_now(eng, hint)
    return exc.args


def _oserror_args_now(eng, hint):
    if eng.branch_fresh("oserr_onearg_" + hint):
        return [VStr(z3.String(eng.fresh_name("oserr_msg_" + hint)))]
    return [VInt(z3.Int(eng.fresh_name("oserr_errno_" + hint))), VStr(z3.String(eng.fresh_name("oserr_strerror_" + hint)))]


def ctx_close(eng, ctx):
    if ctx.cls in ("RFile", "TFile", "OpenFile"):
        of = eng.ghost.get("open_files")
        if of is not None and ctx in of.items:
            of.items.remove(ctx)
        ctx.fields["closed"] = VBool(True)


# ---------------------------------------------------------------------------------------
def call_eval(eng, e, fr):
    """eval(config.get(<lit>, <lit>)): an opaque configuration value of a declared shape."""
    if len(e.args) == 1 and isinstance(e.args[0], ast.Call):
        inner = e.args[0]
        f = inner.func
        if isinstance(f, ast.Attribute) and f.attr == "get" and len(inner.args) == 2 and all(isinstance(a, ast.Constant) for a in inner.args):
            sec, opt = inner.args[0].value, inner.args[1].value
            key = "cfgeval:%s/%s" % (sec, opt)
            shape = eng.contract.opts.get(key) if eng.contract else None
            eng.assumptions_used.add("eval() of configuration option [%s] %s yields a value of the declared shape (configuration, not request data)" % (sec, opt))
            if shape is None:
                raise OutOfSubset("eval of config option %s/%s needs a declared shape (opts[%r])" % (sec, opt, key))
            if key not in eng.ghost:
                eng.ghost[key] = eng.fresh(shape, "cfg_%s_%s" % (sec.replace(".", "_"), opt)) if isinstance(shape, str) else shape(eng)
            return eng.ghost[key]
    raise OutOfSubset("eval() of something other than config.get(<literal>, <literal>)")


def construct_external(eng, world, clsname, args, kwargs, node, fr):
    if clsname in ("io.BytesIO",):
        o = VObj("WFile", name=eng.fresh_name("bytesio"))
        o.fields["written"] = VStr("", True)
        o.fields["pos"] = VInt(0)
        o.fields["nofault"] = VBool(True)
        o.fresh_alloc = True
        return o
    raise OutOfSubset("construction of external class %s" % clsname)


def _arg(args, kwargs, i, name, default=None):
    if i < len(args):
        return args[i]
    return kwargs.get(name, default)


def _conc_str(eng, v):
    v = eng.force(v)
    if isinstance(v, VStr) and is_conc(v.z):
        return v.z
    return None


def call_external(eng, world, name, selfobj, args, kwargs, node, fr):
    if name in eng.contract.externals if eng.contract else False:
        return eng.contract.externals[name](eng, selfobj, args, kwargs, node, fr)
    if name.startswith("builtin:"):
        return call_builtin(eng, world, name[8:], args, kwargs, node, fr)
    if name.startswith("method:"):
        m = name[7:]
        if isinstance(selfobj, VStr):
            return str_method(eng, world, selfobj, m, args, kwargs, node)
        if isinstance(selfobj, VList):
            return list_method(eng, world, selfobj, m, args, kwargs, node)
        if isinstance(selfobj, VDict):
            return dict_method(eng, world, selfobj, m, args, kwargs, node)
        if isinstance(selfobj, VOpaque):
            return opaque_method(eng, world, selfobj, m, args, kwargs, node, fr)
        raise OutOfSubset("method %s on %r" % (m, selfobj))
    if name.startswith("obj:"):
        cls, m = name[4:].split(".")
        return OBJ_IMPL[(cls, m)](eng, world, selfobj, args, kwargs, node)
    fn = EXT_IMPL.get(name)
    if fn is None:
        raise OutOfSubset("external %s has no model" % name)
    return fn(eng, world, args, kwargs, node)


# ---- builtins -------------------------------------------------------------------------
def call_builtin(eng, world, n, args, kwargs, node, fr):
    a0 = eng.force(args[0]) if args else None
    if n == "len":
        if isinstance(a0, VStr):
            return VInt(len(a0.z)) if is_conc(a0.z) else VInt(z3.Length(a0.z))
        if isinstance(a0, VList):
            return VInt(eng.list_len(a0))
        if isinstance(a0, VTuple):
            return VInt(len(a0.items))
        if isinstance(a0, VDict) and a0.sym is None and not a0.overrides:
            return VInt(len(a0.items))
        if a0 is NONE:
            eng.raise_("TypeError", site=node.lineno)
        raise OutOfSubset("len of %r" % (a0,))
    if n == "markup_safe":
        return VBool(markup_safe(eng, a0))
    if n == "markup_safe_text":
        return VBool(markup_safe_text(eng, a0))
    if n == "eval":
        # python: expression evaluation is a sink: logged in the ghost trace `evals`
        if "evals" not in eng.ghost:
            raise OutOfSubset("eval() outside a contract that declares the ghost trace 'evals'")
        eng.ghost["evals"].items.append(a0)
        return VOpaque("evalresult", z3.Const(eng.fresh_name("evalresult"), U))
    if n == "fs_content":
        # ghost: the bytes of the file at an OS path (a function of the path: files do not change during a request)
        eng.assumptions_used.add("file contents are a function of the path for the duration of a request (no concurrent modification)")
        return VStr(sfun("fs_content", STR, STR)(S(a0.z)), True)
    if n in ("fs_isfile", "fs_isdir", "fs_exists"):
        # ghost: what the file system says about an OS path (a function of the path for the duration of a request)
        return VBool(sfun(n, STR, BOOL)(S(a0.z)))
    if n == "ascii_digits":
        # contract helper: s is a non-empty string of ASCII digits (the case in which int(s) is exact)
        if is_conc(a0.z):
            return VBool(a0.z != "" and all(c in "0123456789" for c in a0.z))
        return VBool(z3.InRe(S(a0.z), z3.Plus(ASCII_DIGITS)))
    if n == "str":
        if not args:
            return VStr("")
        if isinstance(a0, VDict) and a0.sym is not None:
            return VStr(z3.String(eng.fresh_name("str_of_dict")))
        return eng.to_str(a0)
    if n == "repr":
        return eng.to_str(a0)
    if n == "bool":
        return VBool(eng.truth(a0))
    if n == "int":
        if isinstance(a0, (VInt, VBool)):
            return VInt(eng.num(a0))
        if isinstance(a0, VStr):
            return py_int(eng, a0, node)
        if isinstance(a0, VReal):
            f = sfun("py_int_of_real", z3.RealSort(), INT)
            return VInt(f(a0.z))
        if a0 is NONE:
            eng.raise_("TypeError", site=node.lineno)
        raise OutOfSubset("int(%r)" % (a0,))
    if n in ("list", "tuple"):
        if not args:
            return VList([]) if n == "list" else VTuple([])
        if isinstance(a0, VList):
            if a0.concrete():
                return VList(list(a0.items), elemty=a0.elemty) if n == "list" else VTuple(a0.items)
            return VList(None, a0.n, a0.get, a0.elemty)
        if isinstance(a0, VTuple):
            return VList(list(a0.items)) if n == "list" else a0
        if isinstance(a0, VDict) and a0.sym is None and not a0.overrides:
            return VList([VStr(k) if isinstance(k, str) else VInt(k) for k in a0.items])
        raise OutOfSubset("%s(%r)" % (n, a0))
    if n == "all" or n == "any":
        if isinstance(a0, (VList, VTuple)) and (isinstance(a0, VTuple) or a0.concrete()):
            ts = [eng.truth(x) for x in a0.items]
            return VBool(eng.and_(ts) if n == "all" else eng.or_(ts))
        if isinstance(a0, VList):
            # all() over a symbolic list: quantifier-free only for the lengths the path condition fixes
            k = eng.implied_int(zint(a0.n))
            if k is not None:
                ts = [eng.truth(a0.get(i)) for i in range(k)]
                return VBool(eng.and_(ts) if n == "all" else eng.or_(ts))
        raise OutOfSubset("%s over symbolic iterable" % n)
    if n == "type":
        if a0 is NONE:
            return VClass("NoneType")
        if isinstance(a0, VObj):
            return VClass(a0.cls)
        if isinstance(a0, VExc):
            return VClass(a0.cls)
        if isinstance(a0, VDict):
            return VClass("dict")
        if isinstance(a0, VStr):
            return VClass("bytes" if a0.isbytes else "str")
        if isinstance(a0, VOpaque):
            if "typename" in a0.attrs:
                return a0.attrs["typename"]
            return VOpaque("type", sfun("type_of", U, U)(a0.z), {"name_of": a0})
        raise OutOfSubset("type(%r)" % (a0,))
    if n == "range":
        vals = [eng.force(a) for a in args]
        if all(isinstance(v, VInt) and is_conc(v.z) for v in vals):
            return VList([VInt(i) for i in range(*[v.z for v in vals])])
        if len(vals) == 1 and isinstance(vals[0], VInt):
            nn = vals[0].z
            return VList(None, z3.If(nn < 0, 0, nn), lambda i: VInt(zint(i)), "int")
        raise OutOfSubset("range with symbolic bounds")
    if n == "enumerate":
        start = eng.force(kwargs.get("start", args[1] if len(args) > 1 else VInt(0)))
        if isinstance(a0, VList) and a0.concrete():
            return VList([VTuple([VInt(start.z + i), x]) for i, x in enumerate(a0.items)])
        if isinstance(a0, VList):
            return VList(None, a0.n, lambda i, a0=a0, s=start: VTuple([VInt(zint(s.z) + zint(i)), a0.get(i)]), None)
        raise OutOfSubset("enumerate(%r)" % (a0,))
    if n in ("max", "min"):
        vals = [eng.force(a) for a in args]
        if len(vals) == 2 and all(isinstance(v, VInt) for v in vals):
            x, y = zint(vals[0].z), zint(vals[1].z)
            return VInt(z3.If(x >= y, x, y) if n == "max" else z3.If(x <= y, x, y))
        raise OutOfSubset(n)
    if n == "abs" and isinstance(a0, VInt):
        return VInt(z3.If(zint(a0.z) >= 0, zint(a0.z), -zint(a0.z)))
    if n == "iter":
        if isinstance(a0, VList):
            it = VObj("ListIter", name=eng.fresh_name("iter"))
            it.fields["seq"] = a0
            it.fields["pos"] = VInt(0)
            it.fresh_alloc = True
            return it
        if isinstance(a0, VOpaque) and "iter" in a0.attrs:
            return a0.attrs["iter"](eng)
        raise OutOfSubset("iter(%r)" % (a0,))
    if n == "next":
        if isinstance(a0, VObj) and a0.cls == "ListIter":
            seq = a0.fields["seq"]
            pos = a0.fields["pos"]
            nlen = eng.list_len(seq)
            if not eng.branch(zint(pos.z) < zint(nlen)):
                eng.raise_("StopIteration", site=node.lineno)
            v = eng.list_get(seq, pos.z)
            a0.fields["pos"] = VInt(z3.simplify(zint(pos.z) + 1))
            return v
        raise OutOfSubset("next(%r)" % (a0,))
    if n == "open":
        return ext_open(eng, world, args, kwargs, node)
    if n == "print":
        return NONE
    if n == "sorted":
        raise OutOfSubset("sorted")
    if n == "ord" and isinstance(a0, VStr):
        return VInt(ord(a0.z)) if is_conc(a0.z) else VInt(z3.StrToCode(a0.z))
    raise OutOfSubset("builtin %s" % n)


SAFE_FUNS = {"html_escape_q", "pct_enc", "int.to.str", "str.from_int"}


def markup_safe_text(eng, v):
    """markup_safe for element content: html.escape(x, quote=False) is also enough there."""
    SAFE_FUNS.add("html_escape_nq")
    try:
        return markup_safe(eng, v)
    finally:
        SAFE_FUNS.discard("html_escape_nq")


def markup_safe(eng, v, quote_needed=True):
    """Structural (taint-style) obligation on a generated HTML/WML string: every piece that is not a string
    literal is html.escape(..) (quote=True), a percent-encoded URL, a number, a configuration value or a string
    declared safe by the function's precondition.  Decided on the symbolic term, not by the solver."""
    if v is NONE:
        return True
    if not isinstance(v, VStr):
        return False
    if is_conc(v.z):
        return True
    eng.assumptions_used.add("markup discipline: html.escape(x) (quote=True) output contains none of < > \" ' and '&' only as entity start; urllib.parse.quote output is over [A-Za-z0-9_.~/%-]; configuration strings (pagetopper, footer, icon names, admin) are trusted markup")
    bad = []
    if getattr(eng, "assume_clauses", 0):
        # the clause is being ASSUMED (postcondition of a callee, precondition of the target): record the
        # string's unknown pieces as safe markup
        def mark(t):
            if z3.is_string_value(t):
                return
            if z3.is_app(t) and t.decl().kind() in (z3.Z3_OP_SEQ_CONCAT, z3.Z3_OP_ITE):
                for c in (t.children() if t.decl().kind() == z3.Z3_OP_SEQ_CONCAT else [t.arg(1), t.arg(2)]):
                    mark(c)
                return
            eng.safe_terms.add(t.get_id())
            eng.keepalive.append(t)
        mark(S(v.z))
        return True

    def walk(t):
        if z3.is_string_value(t):
            return
        if t.get_id() in eng.safe_terms:
            return
        if z3.is_app(t):
            k = t.decl().kind()
            name = t.decl().name()
            if k == z3.Z3_OP_SEQ_CONCAT:
                for c in t.children():
                    walk(c)
                return
            if k == z3.Z3_OP_ITE:
                walk(t.arg(1))
                walk(t.arg(2))
                return
            if name in SAFE_FUNS or name.startswith("fmt_") or name.startswith("re_sub_5c732b"):
                return
            if name in ("se_encode", "bsr_encode", "utf8_encode", "re_sub_lit"):
                for c in t.children():
                    walk(c)
                return
            if k in (z3.Z3_OP_SEQ_EXTRACT, z3.Z3_OP_SEQ_AT) and z3.is_string_value(t.arg(0)):
                return  # a piece of a program literal
            if name.startswith("dict_val_") and "iconmapping" in name:
                return  # values of the configured icon map
            if z3.is_const(t) and (name.startswith("cfg[") or name.startswith("time_") or name.startswith("dict_val_cfg_")):
                return
            if name.startswith("dict_val_cfg_"):
                return
        bad.append(t)

    walk(S(v.z))
    if bad:
        eng.last_unsafe = [b.sexpr()[:120] for b in bad[:4]]
    return not bad


def py_int(eng, s, node):
    if is_conc(s.z):
        try:
            return VInt(int(s.z))
        except ValueError:
            eng.raise_("ValueError", site=node.lineno)
    z = S(s.z)
    simple = z3.InRe(z, z3.Plus(ASCII_DIGITS))
    if eng.branch(simple):
        return VInt(z3.StrToInt(z))
    valid = sfun("py_int_valid", STR, BOOL)
    eng.assumptions_used.add("int(str): exact (str.to_int) on ASCII digit strings; otherwise an uninterpreted result guarded by an uninterpreted validity predicate (ValueError when invalid); a valid literal is non-empty")
    eng.assume(z3.Implies(valid(z), z3.Length(z) > 0))
    # what is known of validity beyond ASCII: short strings of decimal digits (category Nd) are accepted, and a string of Digit-property
    # characters that contains a non-decimal one (a superscript, a circled digit) is rejected
    eng.assume(z3.Implies(z3.And(z3.InRe(z, z3.Plus(decimal_re())), z3.Length(z) <= 4300), valid(z)))
    eng.assume(z3.Implies(z3.And(z3.InRe(z, z3.Plus(digit_re())), z3.Not(z3.InRe(z, z3.Plus(decimal_re())))), z3.Not(valid(z))))
    if not eng.branch(valid(z)):
        eng.raise_("ValueError", site=node.lineno)
    return VInt(sfun("py_int", STR, INT)(z))


# ---- str methods ---------------------------------------------------------------------
def _drop_ws_literals(z, which, isbytes):
    """strip(a ++ w) == strip(a) for a whitespace-only literal w (and symmetrically): an identity of str.strip."""
    from .strlemmas import parts_of
    ws = set(" \t\n\r\x0b\x0c") if isbytes else set(WS_CHARS)
    parts = parts_of(z)
    changed = False
    def is_ws_lit(t):
        return z3.is_string_value(t) and all(c in ws for c in _unesc(t))
    if which in ("strip", "rstrip"):
        while len(parts) > 1 and is_ws_lit(parts[-1]):
            parts = parts[:-1]
            changed = True
        if len(parts) > 1 and z3.is_string_value(parts[-1]):
            lit = _unesc(parts[-1])
            t = lit.rstrip("".join(ws))
            if t != lit:
                parts = parts[:-1] + [z3.StringVal(t)]
                changed = True
    if which in ("strip", "lstrip"):
        while len(parts) > 1 and is_ws_lit(parts[0]):
            parts = parts[1:]
            changed = True
    if not changed:
        return z
    return parts[0] if len(parts) == 1 else z3.Concat(*parts)


def _strip_model(eng, s, which):
    """Complete characterisation of str.strip()/lstrip()/rstrip() without arguments."""
    z = _drop_ws_literals(S(s.z), which, s.isbytes)
    fname = {"strip": "py_strip", "lstrip": "py_lstrip", "rstrip": "py_rstrip"}[which] + ("_b" if s.isbytes else "")
    r = sfun(fname, STR, STR)(z)
    key = ("stripax", fname, z.sexpr())
    if not eng.pc.need_axioms(key):
        return VStr(r, s.isbytes)
    ws = ws_re() if not s.isbytes else _ranges(list(" \t\n\r\x0b\x0c"))
    nws = non_ws(s.isbytes)
    anyc = any_str()
    lead = z3.String(eng.fresh_name("strip_lead"))
    trail = z3.String(eng.fresh_name("strip_trail"))
    eng.assume(z3.Contains(z, r))
    if which == "strip":
        eng.assume(z == z3.Concat(lead, r, trail))
        eng.assume(z3.InRe(lead, z3.Star(ws)))
        eng.assume(z3.InRe(trail, z3.Star(ws)))
        eng.assume(z3.InRe(r, z3.Union(z3.Re(z3.StringVal("")), nws, z3.Concat(nws, anyc, nws))))
    elif which == "rstrip":
        eng.assume(z == z3.Concat(r, trail))
        eng.assume(z3.InRe(trail, z3.Star(ws)))
        eng.assume(z3.InRe(r, z3.Union(z3.Re(z3.StringVal("")), z3.Concat(anyc, nws))))
    else:
        eng.assume(z == z3.Concat(lead, r))
        eng.assume(z3.InRe(lead, z3.Star(ws)))
        eng.assume(z3.InRe(r, z3.Union(z3.Re(z3.StringVal("")), z3.Concat(nws, anyc))))
    return VStr(r, s.isbytes)


def _split_model(eng, s, sep, maxsplit=None):
    z = S(s.z)
    sp = sep
    tag = "%s" % "".join("%02x" % ord(c) for c in sp) + ("" if maxsplit is None else "_m%d" % maxsplit)
    nfun = sfun("split_n_" + tag, STR, INT)
    efun = sfun("split_at_" + tag, STR, INT, STR)
    n = nfun(z)
    key = ("splitax", tag, z.sexpr())
    if eng.pc.need_axioms(key):
        sepz = z3.StringVal(sp)
        eng.assume(n >= 1)
        eng.assume((n == 1) == z3.Not(z3.Contains(z, sepz)))
        eng.assume(z3.Implies(n == 1, efun(z, 0) == z))
        # the first field is the text before the first separator
        eng.assume(z3.Implies(n >= 2, efun(z, 0) == z3.SubString(z, 0, z3.IndexOf(z, sepz, 0))))
        if maxsplit is not None:
            if maxsplit != 1:
                raise OutOfSubset("split maxsplit != 1")
            eng.assume(n <= 2)
            eng.assume(z3.Implies(n == 2, z3.And(z == z3.Concat(efun(z, 0), sepz, efun(z, 1)), z3.Not(z3.Contains(efun(z, 0), sepz)))))
        else:
            for k in range(2, 5):
                parts = []
                for i in range(k):
                    if i:
                        parts.append(sepz)
                    parts.append(efun(z, i))
                eng.assume(z3.Implies(n == k, z == z3.Concat(*parts)))
            # five or more fields: the first four are pinned down, the rest is one tail string
            tail = sfun("split_tail5_" + tag, STR, STR)(z)
            parts = []
            for i in range(4):
                parts.extend([efun(z, i), sepz])
            eng.assume(z3.Implies(n >= 5, z == z3.Concat(*(parts + [tail]))))
            eng.assume(z3.Implies(n >= 5, (n == 5) == z3.Not(z3.Contains(tail, sepz))))
            eng.assume(z3.Implies(n == 5, efun(z, 4) == tail))
            for i in range(4):
                eng.assume(z3.Implies(n > i, z3.Not(z3.Contains(efun(z, i), sepz))))
            eng.assume(z3.Length(z) >= (n - 1) * len(sp))

    def get(i, z=z):
        iz = zint(i)
        e = efun(z, iz)
        k2 = ("splitelem", tag, z.sexpr(), z3.simplify(iz).sexpr())
        if eng.pc.need_axioms(k2) and maxsplit is None:
            eng.assume(z3.Implies(z3.And(iz >= 0, iz < n), z3.Not(z3.Contains(e, z3.StringVal(sp)))))
            eng.assume(z3.Implies(z3.And(iz >= 0, iz < n), z3.Contains(z, e)))
        return VStr(e, s.isbytes)

    out = VList(None, n, get, "bytes" if s.isbytes else "str")
    if maxsplit is None:
        out.split_of = (z, sp, 0, efun)  # (string, separator, number of leading fields dropped, element function)
    return out


LINE_BREAKS = ["\n", "\r", "\x0b", "\x0c", "\x1c", "\x1d", "\x1e", "\x85", "\u2028", "\u2029"]


def str_method(eng, world, s, m, args, kwargs, node):
    args = [eng.force(a) for a in args]
    z = s.z
    conc = is_conc(z) and all(isinstance(a, (VStr, VInt)) and is_conc(a.z) for a in args) and not kwargs
    if conc and m in ("find", "rfind", "startswith", "endswith", "strip", "lstrip", "rstrip", "lower", "upper", "isdigit", "count", "replace"):
        r = getattr(z, m)(*[a.z for a in args])
        if isinstance(r, bool):
            return VBool(r)
        if isinstance(r, int):
            return VInt(r)
        return VStr(r, s.isbytes)
    if m == "find" and len(args) == 1:
        r = z3.IndexOf(S(z), S(args[0].z), 0)
        # valid facts tying find() to `in` (they let the string-free abstraction prune paths)
        eng.assume(r >= -1)
        eng.assume((r == -1) == z3.Not(z3.Contains(S(z), S(args[0].z))))
        return VInt(r)
    if m == "index" and len(args) == 1:
        sub = S(args[0].z)
        if not eng.branch(z3.Contains(S(z), sub)):
            eng.raise_("ValueError", site=node.lineno)
        r = z3.IndexOf(S(z), sub, 0)
        eng.assume(z3.And(r >= 0, r + z3.Length(sub) <= z3.Length(S(z))))
        return VInt(r)
    if m == "rfind" and len(args) == 1:
        sub = S(args[0].z)
        r = sfun("py_rfind", STR, STR, INT)(S(z), sub)
        L = z3.Length(S(z))
        eng.assume(r >= -1)
        eng.assume((r == -1) == z3.Not(z3.Contains(S(z), sub)))
        eng.assume(z3.Implies(r >= 0, z3.And(z3.SubString(S(z), r, z3.Length(sub)) == sub, r + z3.Length(sub) <= L)))
        eng.assume(z3.Implies(z3.And(r >= 0, z3.Length(sub) > 0), z3.Not(z3.Contains(z3.SubString(S(z), r + 1, L), sub))))
        return VInt(r)
    if m in ("startswith", "endswith") and len(args) == 1:
        f = z3.PrefixOf if m == "startswith" else z3.SuffixOf
        a = args[0]
        if isinstance(a, VTuple):
            return VBool(z3.Or(*[f(S(eng.force(x).z), S(z)) for x in a.items]))
        if is_conc(a.z) and not is_conc(z):
            return VBool(strlemmas.prefixof(a.z, z) if m == "startswith" else strlemmas.suffixof(a.z, z))
        if m == "startswith" and not is_conc(z):
            return VBool(strlemmas.prefixof_terms(S(a.z), z))
        return VBool(f(S(a.z), S(z)))
    if m == "rstrip" and len(args) == 1 and isinstance(args[0], VStr) and is_conc(args[0].z) and len(args[0].z) == 1 and not s.isbytes:
        # s.rstrip(c) for one concrete character: s = r + c*  with r not ending in c (unique decomposition)
        ch = args[0].z
        zz = S(z)
        r = sfun("py_rstrip_ch%02x" % ord(ch), STR, STR)(zz)
        if eng.pc.need_axioms(("rstripch", ch, zz.sexpr())):
            trail = sfun("py_rstrip_trail%02x" % ord(ch), STR, STR)(zz)
            eng.assume(zz == z3.Concat(r, trail))
            eng.assume(z3.InRe(trail, z3.Star(z3.Re(z3.StringVal(ch)))))
            eng.assume(z3.Not(z3.SuffixOf(z3.StringVal(ch), r)))
            eng.assume(z3.PrefixOf(r, zz))
            # unfolding by one character (a theorem of the characterisation above): x.rstrip(c) == x[:-1].rstrip(c) when x ends in c, else x
            rf = sfun("py_rstrip_ch%02x" % ord(ch), STR, STR)
            eng.assume(z3.If(z3.SuffixOf(z3.StringVal(ch), zz), r == rf(z3.SubString(zz, 0, z3.Length(zz) - 1)), r == zz))
        return VStr(r)
    if m in ("strip", "lstrip") and len(args) == 1 and isinstance(args[0], VStr) and is_conc(args[0].z) and len(args[0].z) == 1 and not s.isbytes and not is_conc(z):
        # s.strip(c) / s.lstrip(c) for one concrete character: s = c* + r + c* (strip) or c* + r (lstrip), r not starting (nor, for strip, ending) in c
        ch = args[0].z
        zz = S(z)
        r = sfun("py_%s_ch%02x" % (m, ord(ch)), STR, STR)(zz)
        if eng.pc.need_axioms((m + "ch", ch, zz.sexpr())):
            lead = sfun("py_%s_lead%02x" % (m, ord(ch)), STR, STR)(zz)
            cs = z3.Star(z3.Re(z3.StringVal(ch)))
            eng.assume(z3.InRe(lead, cs))
            eng.assume(z3.Not(z3.PrefixOf(z3.StringVal(ch), r)))
            if m == "strip":
                trail = sfun("py_strip_trail%02x" % ord(ch), STR, STR)(zz)
                eng.assume(zz == z3.Concat(lead, r, trail))
                eng.assume(z3.InRe(trail, cs))
                eng.assume(z3.Not(z3.SuffixOf(z3.StringVal(ch), r)))
                eng.assume(z3.Implies(z3.Length(r) == 0, z3.Length(trail) == 0))
            else:
                eng.assume(zz == z3.Concat(lead, r))
            eng.assume(z3.Contains(zz, r))
        return VStr(r)
    if m in ("strip", "lstrip", "rstrip") and not args:
        return _strip_model(eng, s, m)
    if m == "split":
        sep = _arg(args, kwargs, 0, "sep")
        mx = _arg(args, kwargs, 1, "maxsplit")
        if sep is None or not is_conc(sep.z) or sep.z == "":
            raise OutOfSubset("split without literal separator")
        mxv = None
        if mx is not None:
            mx = eng.force(mx)
            if not is_conc(mx.z):
                raise OutOfSubset("split symbolic maxsplit")
            mxv = mx.z
        if is_conc(z):
            return VList([VStr(p, s.isbytes) for p in (z.split(sep.z) if mxv is None else z.split(sep.z, mxv))])
        return _split_model(eng, s, sep.z, mxv)
    if m == "splitlines" and not args:
        if is_conc(z):
            return VList([VStr(p) for p in z.splitlines()])
        zz = S(z)
        nfun = sfun("splitlines_n", STR, INT)
        efun = sfun("splitlines_at", STR, INT, STR)
        eng.assume(nfun(zz) >= 0)
        eng.assume((nfun(zz) == 0) == (z3.Length(zz) == 0))
        eng.assumptions_used.add("str.splitlines(): elements contain no line-boundary character (\\n \\r \\x0b \\x0c \\x1c-\\x1e \\x85 \\u2028 \\u2029) [CPython documented behaviour]")

        def get(i):
            e = efun(zz, zint(i))
            k2 = ("slelem", zz.sexpr(), z3.simplify(zint(i)).sexpr())
            if eng.pc.need_axioms(k2):
                for lb in LINE_BREAKS:
                    eng.assume(z3.Not(z3.Contains(e, z3.StringVal(lb))))
            return VStr(e)

        return VList(None, nfun(zz), get, "str")
    if m in ("lower", "upper") and not args:
        f = sfun("py_" + m, STR, STR)
        r = f(S(z))
        eng.assume(z3.Length(r) >= 0)
        eng.assumptions_used.add("str.lower()/upper(): uninterpreted, with upper(lower(s)) == upper(s) and lower(upper(s)) == lower(s)")
        other = sfun("py_" + ("upper" if m == "lower" else "lower"), STR, STR)
        eng.assume(other(r) == other(S(z)))
        return VStr(r, s.isbytes)
    if m == "isascii" and not args:
        if is_conc(z):
            return VBool(z.isascii())
        return VBool(z3.InRe(S(z), z3.Star(z3.Range(z3.StringVal("\x00"), z3.StringVal("\x7f")))))
    if m == "isdigit" and not args:
        if s.isbytes:
            return VBool(z3.InRe(S(z), z3.Plus(ASCII_DIGITS)))
        # str.isdigit(): uninterpreted predicate pinned down on the ASCII fragment (exactly [0-9]+ there);
        # non-ASCII digit characters exist (and int() may reject them), so nothing more is claimed
        eng.assumptions_used.add("str.isdigit(): true for non-empty ASCII digit strings, implies non-empty, and on ASCII strings equivalent to [0-9]+ (CPython: the only ASCII characters with the Numeric_Type Digit/Decimal property are 0-9)")
        p = sfun("py_isdigit", STR, BOOL)(S(z))
        ascii_ = z3.InRe(S(z), z3.Star(z3.Range(z3.StringVal("\x00"), z3.StringVal("\x7f"))))
        simple = z3.InRe(S(z), z3.Plus(ASCII_DIGITS))
        eng.assume(z3.Implies(simple, p))
        eng.assume(z3.Implies(p, z3.Length(S(z)) > 0))
        eng.assume(z3.Implies(z3.And(p, ascii_), simple))
        # beyond ASCII: exactly the non-empty strings of characters with the Digit property (superscripts, circled digits ... included)
        eng.assume(p == z3.InRe(S(z), z3.Plus(digit_re())))
        return VBool(p)
    if m == "encode":
        return str_encode(eng, s, args, kwargs, node)
    if m == "decode":
        return bytes_decode(eng, s, args, kwargs, node)
    if m == "join":
        lst = args[0]
        if isinstance(lst, (VList, VTuple)) and (isinstance(lst, VTuple) or lst.concrete()):
            parts = []
            for i, x in enumerate(lst.items):
                if i:
                    parts.append(s)
                parts.append(eng.force(x))
            return eng.concat_strs(parts, s.isbytes)
        so = getattr(lst, "split_of", None) if isinstance(lst, VList) else None
        if so is not None and is_conc(z) and z == so[1] and so[2] in (0, 1):
            # sep.join(x.split(sep)) is x, and sep.join(x.split(sep)[1:]) is x without its first field and the
            # separator after it (exact: str.split / str.join are inverse for one and the same separator)
            zz, sp, drop, efun = so
            if drop == 0:
                return VStr(zz, s.isbytes)
            first = efun(zz, 0)
            rest = z3.SubString(zz, z3.Length(first) + len(sp), z3.Length(zz) - z3.Length(first) - len(sp))
            eng.assume(z3.Implies(z3.Contains(zz, z3.StringVal(sp)), zz == z3.Concat(first, z3.StringVal(sp), rest)))
            return VStr(z3.If(z3.Contains(zz, z3.StringVal(sp)), rest, z3.StringVal("")), s.isbytes)
        if isinstance(lst, VList):
            pred = eng.contract.opts.get("join_elem") if eng.contract else None
            if pred and eng.frame_stack and eng.frame_stack[-1] is eng.frame_stack[0]:
                # obligation on an arbitrary element of the joined list
                idx = z3.Int(eng.fresh_name("join_index"))
                n = zint(lst.n)
                if eng.branch(z3.And(idx >= 0, idx < n)):
                    ef = Frame(None, None, {"elem": lst.get(idx)}, "spec/specs.py")
                    eng.oblige("%s.join_elem" % eng.cur_label, eng.world_clause(pred, ef), kind="assert", site=getattr(node, "lineno", None), note="every joined element: " + pred)
                    raise PathEnd()
            return join_symbolic(eng, s, lst)
        raise OutOfSubset("join over %r" % (lst,))
    if m == "format":
        if not is_conc(z):
            raise OutOfSubset("format on symbolic template")
        parts = z.split("{}")
        if len(parts) != len(args) + 1 or "{" in "".join(parts):
            raise OutOfSubset("str.format template")
        out = []
        for i, p in enumerate(parts):
            if p:
                out.append(VStr(p))
            if i < len(args):
                out.append(eng.to_str(args[i]))
        return eng.concat_strs(out)
    if m == "count" and len(args) == 1:
        f = sfun("py_count", STR, STR, INT)
        r = f(S(z), S(args[0].z))
        eng.assume(r >= 0)
        eng.assume((r == 0) == z3.Not(z3.Contains(S(z), S(args[0].z))))
        return VInt(r)
    if m == "replace" and len(args) == 2:
        a_, b_ = eng.force(args[0]), eng.force(args[1])
        if isinstance(a_, VStr) and isinstance(b_, VStr) and is_conc(a_.z) and is_conc(b_.z) and len(a_.z) == 1 and len(b_.z) == 1 and a_.z != b_.z and not s.isbytes:
            # one character replaced by another everywhere: a length-preserving map, the identity on strings without the character,
            # whose result does not contain it (a sound but incomplete characterisation: enough to refute, rarely enough to prove)
            zz = S(z)
            r = sfun("py_replace_%02x_%02x" % (ord(a_.z), ord(b_.z)), STR, STR)(zz)
            if eng.pc.need_axioms(("replch", a_.z, b_.z, zz.sexpr())):
                eng.assume(z3.Length(r) == z3.Length(zz))
                eng.assume(z3.Not(z3.Contains(r, z3.StringVal(a_.z))))
                eng.assume(z3.Implies(z3.Not(z3.Contains(zz, z3.StringVal(a_.z))), r == zz))
                eng.assume(z3.Implies(z3.Contains(zz, z3.StringVal(a_.z)), z3.Contains(r, z3.StringVal(b_.z))))
            eng.assumptions_used.add("str.replace(c, d) for single characters: length-preserving, identity without c, result free of c (incomplete characterisation)")
            return VStr(r)
        raise OutOfSubset("str.replace on symbolic string")
    raise OutOfSubset("str method %s" % m)


def join_symbolic(eng, sep, lst):
    """sep.join(symbolic list): uninterpreted fold joinN(sep, base) with the unfolding facts the
    proofs need (empty, single, and last-element step)."""
    f = sfun("py_join_upto", STR, INT, STR)  # join of first k elements, keyed by a list identity below
    # lists have no z3 identity; use a per-list tag
    tag = getattr(lst, "jointag", None)
    if tag is None:
        tag = eng.fresh_name("jl")
        lst.jointag = tag
    F = sfun("py_join_" + tag, STR, INT, STR)
    n = zint(lst.n)
    eng.assume(F(S(sep.z), 0) == z3.StringVal(""))
    return VStr(F(S(sep.z), n))


def _homomorph(eng, z, fname, conc_fn):
    """Apply a per-character (homomorphic) string function to a term, distributing over ++
    and computing it on constants."""
    if is_conc(z):
        return z3.StringVal(conc_fn(z))
    if z3.is_string_value(z):
        return z3.StringVal(conc_fn(z.as_string() if False else _unesc(z)))
    if z3.is_app(z) and z.decl().kind() == z3.Z3_OP_SEQ_CONCAT:
        return z3.Concat(*[_homomorph(eng, c, fname, conc_fn) for c in z.children()])
    if z3.is_app(z) and z.decl().kind() == z3.Z3_OP_ITE:
        return z3.If(z.arg(0), _homomorph(eng, z.arg(1), fname, conc_fn), _homomorph(eng, z.arg(2), fname, conc_fn))
    if fname in ("se_encode", "utf8_encode", "bsr_encode") and _ascii_by_construction(z):
        return z
    return sfun(fname, STR, STR)(z)


def _unesc(zv):
    # z3 string literal -> Python str
    s = zv.as_string()
    out = []
    i = 0
    while i < len(s):
        if s.startswith("\\u{", i):
            j = s.index("}", i)
            out.append(chr(int(s[i + 3 : j], 16)))
            i = j + 1
        else:
            out.append(s[i])
            i += 1
    return "".join(out)


def _ascii_by_construction(t):
    """Concatenations of ASCII literals and decimal renderings of integers are ASCII."""
    if z3.is_string_value(t):
        return all(ord(c) < 128 for c in _unesc(t))
    if not z3.is_app(t):
        return False
    k = t.decl().kind()
    if k == z3.Z3_OP_SEQ_CONCAT:
        return all(_ascii_by_construction(c) for c in t.children())
    if k == z3.Z3_OP_ITE:
        return _ascii_by_construction(t.arg(1)) and _ascii_by_construction(t.arg(2))
    if t.decl().name() in ("int.to.str", "str.from_int"):
        return True
    if z3.is_const(t) and t.decl().name().startswith("time_"):
        return True  # strftime/ctime with the fixed formats used in the repository (C locale)
    return False


def str_encode(eng, s, args, kwargs, node):
    enc = _arg(args, kwargs, 0, "encoding")
    err = _arg(args, kwargs, 1, "errors")
    enc = enc.z if enc is not None else "utf-8"
    err = err.z if err is not None else "strict"
    if s.isbytes:
        eng.raise_("AttributeError", site=node.lineno)
    if enc == "ascii" and err == "strict":
        isascii = z3.InRe(S(s.z), z3.Star(z3.Range(z3.StringVal("\x00"), z3.StringVal("\x7f"))))
        if is_conc(s.z):
            isascii = all(ord(c) < 128 for c in s.z)
        if not eng.branch(isascii):
            eng.raise_("UnicodeEncodeError", site=node.lineno)
        return VStr(s.z, True)
    if enc in ("utf-8", "utf8"):
        if is_conc(s.z):
            try:
                return VStr(s.z.encode("utf-8", err).decode("latin-1"), True)
            except UnicodeEncodeError:
                eng.raise_("UnicodeEncodeError", site=node.lineno)
        if err == "surrogateescape":
            eng.assumptions_used.add("str.encode(errors='surrogateescape') is per-character (distributes over +), identity on ASCII, and does not raise on strings that were obtained by surrogateescape-decoding bytes (all request/file-derived strings)")
            return VStr(_homomorph(eng, s.z, "se_encode", lambda c: c.encode("utf-8", "surrogateescape").decode("latin-1")), True)
        if err == "backslashreplace":
            eng.assumptions_used.add("str.encode(errors='backslashreplace') is per-character, identity on ASCII, never raises")
            return VStr(_homomorph(eng, s.z, "bsr_encode", lambda c: c.encode("utf-8", "backslashreplace").decode("latin-1")), True)
        if err == "strict" and _ascii_by_construction(S(s.z)):
            return VStr(_homomorph(eng, s.z, "utf8_encode", lambda c: c.encode("utf-8").decode("latin-1")), True)
        if err == "strict" and z3.is_const(S(s.z)) and S(s.z).decl().name().startswith("cfg["):
            eng.assumptions_used.add("configuration strings are UTF-8 encodable")
            return VStr(_homomorph(eng, s.z, "utf8_encode", lambda c: c.encode("utf-8").decode("latin-1")), True)
        if err == "strict" and eng.branch(z3.InRe(S(s.z), z3.Star(z3.Range(z3.StringVal("\x00"), z3.StringVal("\x7f"))))):
            return VStr(s.z, True)
        if err == "strict":
            eng.assumptions_used.add("str.encode() (strict UTF-8) is per-character and identity on ASCII; may raise UnicodeEncodeError on lone surrogates (modelled by an uninterpreted predicate)")
            ok = sfun("utf8_strict_ok", STR, BOOL)(S(s.z))
            if not eng.branch(ok):
                eng.raise_("UnicodeEncodeError", site=node.lineno)
            return VStr(_homomorph(eng, s.z, "utf8_encode", lambda c: c.encode("utf-8").decode("latin-1")), True)
    raise OutOfSubset("encode(%s, %s)" % (enc, err))


def bytes_decode(eng, s, args, kwargs, node):
    enc = _arg(args, kwargs, 0, "encoding")
    err = _arg(args, kwargs, 1, "errors")
    enc = enc.z if enc is not None else "utf-8"
    err = err.z if err is not None else "strict"
    if not s.isbytes:
        eng.raise_("AttributeError", site=node.lineno)
    if enc in ("utf-8", "utf8") and err in ("surrogateescape", "replace", "backslashreplace"):
        if is_conc(s.z):
            return VStr(s.z.encode("latin-1").decode("utf-8", err))
        fname = {"surrogateescape": "se_decode", "replace": "repl_decode", "backslashreplace": "bsr_decode"}[err]
        r = sfun(fname, STR, STR)(S(s.z))
        if err == "surrogateescape":
            eng.assumptions_used.add("bytes.decode(errors='surrogateescape') never raises and se_encode(se_decode(b)) == b; len 0 iff input empty")
            eng.assume(sfun("se_encode", STR, STR)(r) == S(s.z))
        eng.assume((z3.Length(r) == 0) == (z3.Length(S(s.z)) == 0))
        return VStr(r)
    raise OutOfSubset("decode(%s, %s)" % (enc, err))


# ---- list / dict methods -------------------------------------------------------------
def list_method(eng, world, lst, m, args, kwargs, node):
    if m == "append":
        x = args[0]
        if lst.concrete():
            lst.items.append(x)
        else:
            old_get, old_n = lst.get, lst.n

            def get(i, old_get=old_get, old_n=old_n, x=x):
                c = z3.simplify(zint(i) == old_n)
                if z3.is_true(c):
                    return x
                if z3.is_false(c):
                    return old_get(i)
                if eng.branch(c):
                    return x
                return old_get(i)

            lst.get = get
            lst.n = z3.simplify(old_n + 1)
        return NONE
    if m == "extend":
        other = eng.force(args[0])
        if lst.concrete() and isinstance(other, (VList, VTuple)) and (isinstance(other, VTuple) or other.concrete()):
            lst.items.extend(other.items)
            return NONE
        if isinstance(other, VList):
            new = eng.list_concat(VList(lst.items, lst.n, lst.get, lst.elemty), other)
            lst.items, lst.n, lst.get = new.items, new.n, new.get
            return NONE
        raise OutOfSubset("extend with %r" % (other,))
    if m == "copy":
        if lst.concrete():
            return VList(list(lst.items), elemty=lst.elemty)
        return VList(None, lst.n, lst.get, lst.elemty)
    if m == "reverse" and lst.concrete():
        lst.items.reverse()
        return NONE
    if m == "sort":
        return list_sort(eng, world, lst, args, kwargs, node)
    if m == "remove" and lst.concrete():
        x = args[0]
        for i, y in enumerate(lst.items):
            if eng.branch(eng.eq(y, x)):
                del lst.items[i]
                return NONE
        eng.raise_("ValueError", site=node.lineno)
    if m == "remove" and not lst.concrete():
        # removal from a symbolic list: one element fewer (or ValueError when absent); which one is not tracked
        eng.assumptions_used.add("list.remove(x) on a symbolic list: the result has one element fewer and contains only elements of the original list (positions not tracked)")
        absent = eng.branch_fresh("list_remove_absent")
        if absent and not (eng.contract and eng.contract.opts.get("remove_present")):
            eng.raise_("ValueError", site=node.lineno)
        if absent:
            raise PathEnd()
        fresh = eng.symlist(z3.simplify(zint(lst.n) - 1), lst.elemty or "obj:GopherEntry", "after_remove")
        eng.assume(zint(lst.n) >= 1)
        lst.n, lst.get = fresh.n, fresh.get
        return NONE
    if m == "pop" and not lst.concrete() and not args:
        n = zint(lst.n)
        if not eng.branch(n >= 1):
            eng.raise_("IndexError", site=node.lineno)
        last = lst.get(z3.simplify(n - 1))
        lst.n = z3.simplify(n - 1)
        return last
    if m == "pop" and lst.concrete() and not args:
        if not lst.items:
            eng.raise_("IndexError", site=node.lineno)
        return lst.items.pop()
    if m == "index" and lst.concrete():
        for i, y in enumerate(lst.items):
            if eng.branch(eng.eq(y, args[0])):
                return VInt(i)
        eng.raise_("ValueError", site=node.lineno)
    raise OutOfSubset("list method %s (concrete=%s)" % (m, lst.concrete()))


def list_sort(eng, world, lst, args, kwargs, node):
    if lst.concrete() and all(isinstance(x, (VStr, VInt)) and is_conc(x.z) for x in lst.items) and not kwargs:
        lst.items.sort(key=lambda v: v.z)
        return NONE
    if "key" in kwargs or args:
        # sort with a comparator key: the result is some permutation of the input (order decided by the
        # comparator, which is verified separately to be a total preorder).  Only the comparator the order
        # lemmas are about is accepted; any other key function is outside the subset (the order it induces is unknown)
        import ast as _ast
        ktxt = None
        for kw in getattr(node, "keywords", []):
            if kw.arg == "key":
                ktxt = _ast.unparse(kw.value)
        if ktxt != "functools.cmp_to_key(self.entrycmp)":
            raise OutOfSubset("list.sort with key %s (only functools.cmp_to_key(self.entrycmp), whose order is specified, is modelled)" % ktxt)
        eng.assumptions_used.add("list.sort(key=cmp_to_key(f)) yields a permutation of the list (same length); the order is the one induced by f (C07: f is verified to be a total preorder)")
        n = lst.n if not lst.concrete() else len(lst.items)
        fresh = eng.symlist(zint(n), lst.elemty or "obj:GopherEntry", "sorted")
        lst.items, lst.n, lst.get = None, zint(n), fresh.get
        return NONE
    # symbolic list of strings: result is the sorted permutation (assumed contract of list.sort)
    if lst.concrete():
        raise OutOfSubset("sort of concrete list with symbolic elements")
    eng.assumptions_used.add("list.sort() on strings yields a permutation in non-decreasing code-point order (CPython guarantee); modelled as: same length, adjacent elements ordered, every element of the result occurs in the input and vice versa (ghost permutation function)")
    base = eng.fresh_name("sorted_elem")
    perm = sfun(eng.fresh_name("sort_perm"), INT, INT)
    old_get, n = lst.get, lst.n
    f = sfun(base, INT, STR)

    def get(i, f=f):
        iz = zint(i)
        key = ("sortelem", base, z3.simplify(iz).sexpr())
        if eng.pc.need_axioms(key):
            p = perm(iz)
            eng.assume(z3.Implies(z3.And(iz >= 0, iz < n), z3.And(p >= 0, p < n, f(iz) == S(eng.force(old_get(p)).z))))
            eng.assume(z3.Implies(z3.And(iz >= 0, iz + 1 < n), f(iz) <= f(iz + 1)))
        return VStr(f(iz))

    lst.get = get
    lst.sorted_from = (old_get, perm)
    return NONE


def dict_method(eng, world, d, m, args, kwargs, node):
    if m == "get":
        k = eng.force(args[0])
        default = args[1] if len(args) > 1 else NONE
        if eng.branch(eng.dict_has(d, k)):
            return eng.dict_get(d, k, node)
        return default
    if m == "keys":
        if d.sym is None and not d.overrides:
            return VList([VStr(k) if isinstance(k, str) else VInt(k) for k in d.items])
        if getattr(d, "keylist", None) is not None:
            return d.keylist
        if d.sym is not None and not d.overrides and not d.items:
            # keys of a symbolic dict: some list of strings, each of which is a key
            name = d.sym[0]
            n = z3.Int(eng.fresh_name("nkeys_" + name))
            eng.assume(n >= 0)
            kf = sfun("dict_key_" + name, INT, STR)
            hasf = sfun("dict_has_" + name, STR, BOOL)
            seen = set()

            def get(i):
                k = kf(zint(i))
                key = z3.simplify(zint(i)).sexpr()
                if key not in seen:
                    seen.add(key)
                    eng.assume(hasf(k))
                return VStr(k)

            d.keylist = VList(None, n, get, "str")
            return d.keylist
        raise OutOfSubset("keys() of symbolic dict")
    if m == "items":
        if d.sym is None and not d.overrides:
            return VList([VTuple([VStr(k) if isinstance(k, str) else VInt(k), v]) for k, v in d.items.items()])
        if d.sym is not None and not d.overrides and not d.items:
            # items of a symbolic dict: (key_i, d[key_i]) over the key list of keys()
            keys = dict_method(eng, world, d, "keys", [], {}, node)
            return VList(None, keys.n, lambda i, keys=keys, d=d: VTuple([keys.get(i), eng.dict_get(d, keys.get(i), node)]), "tuple")
        raise OutOfSubset("items() of symbolic dict")
    if m == "values":
        if d.sym is None and not d.overrides:
            return VList(list(d.items.values()))
        raise OutOfSubset("values() of symbolic dict")
    if m == "copy":
        nd = VDict(dict(d.items), sym=d.sym, valty=d.valty)
        nd.overrides = list(d.overrides)
        return nd
    raise OutOfSubset("dict method %s" % m)


def opaque_method(eng, world, o, m, args, kwargs, node, fr):
    h = o.attrs.get("methods", {}).get(m)
    if h is not None:
        return h(eng, o, args, kwargs, node)
    if o.tag == "logger" and m in ("debug", "info", "warning", "error", "exception", "critical"):
        for a in args:
            eng.force(a)  # the message is built (and may raise) before the call
        return NONE
    raise OutOfSubset("method %s on opaque %s" % (m, o.tag))


# ---- object models -------------------------------------------------------------------
OBJ_IMPL = {}


def objimpl(cls, m):
    def deco(fn):
        OBJ_IMPL[(cls, m)] = fn
        return fn

    return deco


def _wfile_fault(eng, w, node):
    """Fault model of C20/C03: any write may fail with an OSError."""
    if not eng.contract.opts.get("wfile_faults"):
        return
    if isinstance(w, VObj) and w.fields.get("nofault"):
        return
    eng.assumptions_used.add("wfile.write may raise OSError at any call (fault model); it raises nothing else")
    if eng.branch_fresh("wfile_write_fails"):
        exc = VExc("OSError", oserror_args(eng, "wfile"))
        exc.attrs["from_wfile"] = VBool(True)
        eng.ghost.setdefault("wfile_faults", VList([])).items.append(exc)
        raise Raised(exc, getattr(node, "lineno", None))


@objimpl("WFile", "write")
def wfile_write(eng, world, w, args, kwargs, node):
    data = eng.force(args[0])
    if not isinstance(data, VStr) or not data.isbytes:
        eng.raise_("TypeError", site=node.lineno)
    _wfile_fault(eng, w, node)
    cur = eng.getattr(w, "written")
    w.fields["written"] = eng.concat_strs([cur, data], True)
    if "delta" in w.fields:
        w.fields["delta"] = eng.concat_strs([w.fields["delta"], data], True)
    nw = w.fields.get("nwrites")
    if nw is not None:
        w.fields["nwrites"] = VInt(z3.simplify(zint(nw.z) + 1))
    return VInt(z3.Length(S(data.z)) if not is_conc(data.z) else len(data.z))


@objimpl("WFile", "seek")
def wfile_seek(eng, world, w, args, kwargs, node):
    p = eng.force(args[0])
    w.fields["pos"] = p
    return p


@objimpl("WFile", "readline")
def wfile_readline(eng, world, w, args, kwargs, node):
    # an in-memory file (io.BytesIO): reading returns what was written
    w.fields["content"] = eng.getattr(w, "written")
    return rfile_readline(eng, world, w, args, kwargs, node)


@objimpl("WFile", "getvalue")
def wfile_getvalue(eng, world, w, args, kwargs, node):
    return eng.getattr(w, "written")


@objimpl("WFile", "flush")
def wfile_flush(eng, world, w, args, kwargs, node):
    return NONE


@objimpl("RFile", "read")
def rfile_read(eng, world, r, args, kwargs, node):
    """read(n): returns content[pos:pos+k] with 1 <= k <= n when data remains (short reads allowed),
    b'' at EOF; read() returns the rest."""
    eng.assumptions_used.add("file.read(n) returns between 1 and n of the remaining bytes, b'' only at end of file (short reads allowed); file content does not change while open")
    content = eng.getattr(r, "content")
    pos = eng.getattr(r, "pos")
    c = S(content.z)
    p = zint(pos.z)
    L = z3.Length(c)
    if not args:
        r.fields["pos"] = VInt(L)
        return VStr(z3.SubString(c, p, L - p), True)
    n = eng.force(args[0])
    k = z3.Int(eng.fresh_name("read_k"))
    nn = zint(n.z)
    eng.assume(z3.And(k >= 0, k <= nn, k <= L - p))
    eng.assume(z3.Implies(z3.And(p < L, nn > 0), k >= 1))
    if r.fields.get("fullreads"):
        eng.assume(k == z3.If(L - p < nn, L - p, nn))
    r.fields["pos"] = VInt(p + k)
    return VStr(z3.SubString(c, p, k), content.isbytes)


@objimpl("RFile", "readline")
def rfile_readline(eng, world, r, args, kwargs, node):
    eng.assumptions_used.add("file.readline() returns the next line including its terminator: '' only at EOF, otherwise a non-empty prefix of the remaining content that contains no newline except possibly as its last character")
    content = eng.getattr(r, "content")
    pos = eng.getattr(r, "pos")
    c = S(content.z)
    p = zint(pos.z)
    L = z3.Length(c)
    k = z3.Int(eng.fresh_name("readline_k"))
    eng.assume(z3.And(k >= 0, k <= L - p))
    eng.assume((k == 0) == (p >= L))
    line = z3.SubString(c, p, k)
    nl = z3.StringVal("\n")
    eng.assume(z3.Implies(k > 0, z3.Not(z3.Contains(z3.SubString(line, 0, k - 1), nl))))
    limit = None
    if args or kwargs:
        # readline(size): at most size bytes; the line may then stop before its terminator
        a = eng.force(args[0] if args else list(kwargs.values())[0])
        if a is not NONE:
            if not isinstance(a, VInt):
                raise OutOfSubset("readline(size) with a non-integer size")
            limit = zint(a.z)
            eng.assume(z3.Implies(limit >= 0, k <= limit))
    if limit is None:
        eng.assume(z3.Implies(z3.And(k > 0, p + k < L), z3.SuffixOf(nl, line)))
    else:
        eng.assume(z3.Implies(z3.And(k > 0, p + k < L, z3.Or(limit < 0, k < limit)), z3.SuffixOf(nl, line)))
        eng.assume(z3.Implies(z3.And(limit > 0, p < L), k > 0))
    r.fields["pos"] = VInt(p + k)
    lines = r.fields.get("nlines")
    if lines is not None:
        r.fields["nlines"] = VInt(z3.simplify(zint(lines.z) + 1))
    return VStr(line, content.isbytes)


OBJ_IMPL[("TFile", "read")] = rfile_read
OBJ_IMPL[("TFile", "readline")] = rfile_readline


@objimpl("RFile", "close")
def rfile_close(eng, world, r, args, kwargs, node):
    ctx_close(eng, r)
    return NONE


def cfg_key(eng, args):
    sec = _conc_str(eng, args[0])
    opt = _conc_str(eng, args[1])
    if sec is None or opt is None:
        raise OutOfSubset("config access with non-literal section/option")
    return sec, opt


def _cfg_over(c):
    if "_over" not in c.fields:
        c.fields["_over"] = VDict()
    return c.fields["_over"].items


@objimpl("Config", "get")
def config_get(eng, world, c, args, kwargs, node):
    sec, opt = cfg_key(eng, args)
    ov = _cfg_over(c)
    if sec + "/" + opt in ov:
        return ov[sec + "/" + opt]
    eng.assumptions_used.add("configuration values are arbitrary but fixed strings per (section, option); options read with get() exist")
    return VStr(z3.String("cfg[%s/%s]" % (sec, opt)))


@objimpl("Config", "getboolean")
def config_getboolean(eng, world, c, args, kwargs, node):
    sec, opt = cfg_key(eng, args)
    return VBool(z3.Bool("cfgbool[%s/%s]" % (sec, opt)))


@objimpl("Config", "getint")
def config_getint(eng, world, c, args, kwargs, node):
    sec, opt = cfg_key(eng, args)
    return VInt(z3.Int("cfgint[%s/%s]" % (sec, opt)))


@objimpl("Config", "has_option")
def config_has_option(eng, world, c, args, kwargs, node):
    sec, opt = cfg_key(eng, args)
    return VBool(z3.Bool("cfghas[%s/%s]" % (sec, opt)))


@objimpl("Config", "set")
def config_set(eng, world, c, args, kwargs, node):
    sec, opt = cfg_key(eng, args)
    _cfg_over(c)[sec + "/" + opt] = args[2]
    trace_event(eng, "config.set", [VStr(sec), VStr(opt), args[2]])
    return NONE


def trace_event(eng, name, args):
    tr = eng.ghost.get("trace")
    if tr is not None:
        tr.items.append(VTuple([VStr(name)] + list(args)))


# ---- module-level externals ----------------------------------------------------------
EXT_IMPL = {}


def ext(name):
    def deco(fn):
        EXT_IMPL[name] = fn
        return fn

    return deco


def _syscall(name, raises="OSError"):
    def impl(eng, world, args, kwargs, node):
        eng.assumptions_used.add("%s does what POSIX says; modelled as a trace event that either returns or raises %s" % (name, raises))
        trace_event(eng, name, args)
        if eng.branch_fresh("fails_" + name.replace(".", "_")):
            trace_event(eng, "FAILED:" + name, [])
            cls = raises
            if raises == "OSError":
                # the failure surfaces as OSError or as one of its errno-specific subclasses
                cls = ["OSError", "PermissionError", "FileNotFoundError"][eng.choose(3, "errclass_" + name.replace(".", "_"))]
            raise Raised(VExc(cls, oserror_args(eng, name) if raises == "OSError" else [VStr("x")]), getattr(node, "lineno", None))
        return NONE

    return impl


for _n in ("os.chroot", "os.chdir", "os.setgroups", "os.setregid", "os.setreuid"):
    EXT_IMPL[_n] = _syscall(_n)


def _lookup(name):
    def impl(eng, world, args, kwargs, node):
        eng.assumptions_used.add("%s returns a record whose index 2 is the numeric id, or raises KeyError" % name)
        if eng.branch_fresh("fails_" + name.replace(".", "_")):
            trace_event(eng, name, args)
            trace_event(eng, "FAILED:" + name, [])
            raise Raised(VExc("KeyError", [VStr("name not found")]), getattr(node, "lineno", None))
        idv = VInt(z3.Int(eng.fresh_name(name.replace(".", "_") + "_id")))
        trace_event(eng, name, list(args) + [idv])
        return VTuple([NONE, NONE, idv])

    return impl


EXT_IMPL["pwd.getpwnam"] = _lookup("pwd.getpwnam")
EXT_IMPL["grp.getgrnam"] = _lookup("grp.getgrnam")


@ext("logger.log")
def logger_log(eng, world, args, kwargs, node):
    lg = eng.ghost.get("log")
    if lg is not None:
        lg.items.append(eng.force(args[0]))
    return NONE


EXT_IMPL["pygopherd.logger.log"] = logger_log


@ext("time.time")
def time_time(eng, world, args, kwargs, node):
    eng.assumptions_used.add("time.time() is a real number (float rounding ignored)")
    if "now" in eng.ghost:
        return eng.ghost["now"]
    return VReal(z3.Real(eng.fresh_name("now")))


def _stat_pred(name):
    def impl(eng, world, args, kwargs, node):
        m = eng.force(args[0])
        if isinstance(m, VInt) and is_conc(m.z):
            return VBool(bool(getattr(_stat, name.split(".")[-1])(m.z)))
        f = sfun(name.replace(".", "_"), INT, BOOL)
        eng.assumptions_used.add("stat.S_ISDIR / S_ISREG / S_ISLNK are mutually exclusive predicates of the mode word")
        z = zint(m.z)
        d, r = sfun("stat_S_ISDIR", INT, BOOL), sfun("stat_S_ISREG", INT, BOOL)
        eng.assume(z3.Not(z3.And(d(z), r(z))))
        if eng.pc.need_axioms(("stat_consts",)):
            # the two mode words VFSZip.stat fabricates (0o40755, 0o100644)
            eng.assume(z3.And(d(z3.IntVal(16877)), z3.Not(r(z3.IntVal(16877))), r(z3.IntVal(33188)), z3.Not(d(z3.IntVal(33188)))))
        return VBool(f(z))

    return impl


EXT_IMPL["stat.S_ISDIR"] = _stat_pred("stat.S_ISDIR")
EXT_IMPL["stat.S_ISREG"] = _stat_pred("stat.S_ISREG")
EXT_IMPL["stat.S_ISLNK"] = _stat_pred("stat.S_ISLNK")


@ext("stat.S_IMODE")
def stat_imode(eng, world, args, kwargs, node):
    m = eng.force(args[0])
    return VInt(sfun("stat_S_IMODE", INT, INT)(zint(m.z)))


def re_call(kind):
    def impl(eng, world, args, kwargs, node):
        if len(args) > 2 or kwargs:
            fl = eng.force(kwargs.get("flags", args[2] if len(args) > 2 else VInt(0)))
            if not (isinstance(fl, VInt) and is_conc(fl.z) and fl.z == 0):
                raise OutOfSubset("re.%s with flags (only flag-less matching is modelled)" % kind)
        pat = eng.force(args[0])
        subj = eng.force(args[1])
        if not (isinstance(pat, VStr) and is_conc(pat.z)):
            # configured pattern: uninterpreted predicate of (pattern, subject)
            eng.assumptions_used.add("re.%s with a configured (non-literal) pattern is an uninterpreted predicate of (pattern, subject)" % kind)
            f = sfun("re_%s_cfg" % kind, STR, STR, BOOL)
            ismatch = f(S(pat.z), S(subj.z))
            return VOpt(z3.Not(ismatch), VOpaque("match", z3.Const(eng.fresh_name("m"), U)))
        try:
            r = rx.compile_search(pat.z) if kind == "search" else rx.compile_match(pat.z)
        except rx.Unsupported as ex:
            raise OutOfSubset("regex %r: %s" % (pat.z, ex))
        if not isinstance(subj, VStr):
            eng.raise_("TypeError", site=node.lineno)
        if is_conc(subj.z):
            import re as _re

            mobj = getattr(_re, kind)(pat.z, subj.z)
            if mobj is None:
                return NONE
            return make_match(eng, pat.z, subj, kind, concrete=mobj)
        ismatch = z3.InRe(S(subj.z), r)
        return VOpt(z3.Not(ismatch), make_match(eng, pat.z, subj, kind))

    return impl


def make_match(eng, pat, subj, kind, concrete=None):
    mo = VOpaque("match", z3.Const(eng.fresh_name("m"), U))

    def group(eng2, o, args, kwargs, node):
        i = eng2.force(args[0]).z if args else 0
        if concrete is not None:
            g = concrete.group(i)
            return VStr(g) if g is not None else NONE
        return match_group(eng2, pat, subj, kind, i)

    def groups(eng2, o, args, kwargs, node):
        import re as _re

        n = _re.compile(pat).groups
        return VTuple([group(eng2, o, [VInt(i + 1)], {}, node) for i in range(n)])

    mo.attrs["methods"] = {"group": group, "groups": groups}
    return mo


def match_group(eng, pat, subj, kind, i):
    """Capture groups for the literal pattern shapes that occur in the repository."""
    z = S(subj.z)
    L = z3.Length(z)
    if pat == "(/|)URL:(.+)$" and kind == "match":
        # group 1 is "/" iff subject starts with "/URL:" (the alternation prefers "/"), group 2 the rest
        slash = z3.PrefixOf(z3.StringVal("/URL:"), z)
        if i == 1:
            return VStr(z3.If(slash, z3.StringVal("/"), z3.StringVal("")))
        if i == 2:
            start = z3.If(slash, 5, 4)
            rest = z3.SubString(z, start, L - start)
            # `$` may leave one trailing newline out of the group; `.+` cannot span newlines, and the
            # match succeeded, so rest is  g2  or  g2 + "\n"
            g = z3.If(z3.SuffixOf(z3.StringVal("\n"), rest), z3.SubString(rest, 0, z3.Length(rest) - 1), rest)
            return VStr(g)
    if pat == "/PYGOPHERD-HTTPPROTO-ICONS/(.+)$" and kind == "match" and i == 1:
        pre = len("/PYGOPHERD-HTTPPROTO-ICONS/")
        rest = z3.SubString(z, pre, L - pre)
        g = z3.If(z3.SuffixOf(z3.StringVal("\n"), rest), z3.SubString(rest, 0, z3.Length(rest) - 1), rest)
        return VStr(g)
    # any other group: an uninterpreted substring of the subject (callers escape it before use)
    eng.assumptions_used.add("re match groups not covered by an exact encoding are uninterpreted substrings of the subject")
    g = sfun("re_group_%s" % "".join("%02x" % ord(c) for c in pat)[:40], STR, INT, STR)(z, z3.IntVal(i))
    eng.assume(z3.Contains(z, g))
    return VStr(g)


def re_sub(eng, world, args, kwargs, node):
    """re.sub(<char-class>+, repl, s): the result contains no character of the class when repl has none
    (assumed contract of re.sub for the literal patterns used in the repository)."""
    if len(args) > 3 or kwargs:
        raise OutOfSubset("re.sub with count/flags (only the three-argument form is modelled)")
    pat, repl, subj = [eng.force(a) for a in args[:3]]
    if isinstance(pat, VStr) and is_conc(pat.z) and pat.z.isalnum() and isinstance(repl, VStr) and isinstance(subj, VStr):
        eng.assumptions_used.add("re.sub(<alphanumeric literal>, repl, s): s with the occurrences of the literal replaced by repl (repl without backslashes)")
        return VStr(sfun("re_sub_lit", STR, STR, STR, STR)(z3.StringVal(pat.z), S(repl.z), S(subj.z)))
    if not (isinstance(pat, VStr) and is_conc(pat.z) and isinstance(repl, VStr) and is_conc(repl.z)):
        raise OutOfSubset("re.sub with non-literal pattern/replacement")
    if isinstance(pat, VStr) and is_conc(pat.z) and pat.z.isalnum():
        # literal (alphanumeric) pattern: every occurrence replaced by repl
        eng.assumptions_used.add("re.sub(<alphanumeric literal>, repl, s): s with the occurrences of the literal replaced by repl (repl without backslashes)")
        return VStr(sfun("re_sub_lit", STR, STR, STR, STR)(z3.StringVal(pat.z), S(repl.z), S(subj.z)))
    classes = {r"[\r\n]+": "\r\n", r"\s+": " \t\n\r\x0b\x0c", r"[\s]+": " \t\n\r\x0b\x0c"}
    if pat.z not in classes:
        raise OutOfSubset("re.sub pattern %r" % pat.z)
    if is_conc(subj.z):
        import re as _re
        return VStr(_re.sub(pat.z, repl.z, subj.z))
    eng.assumptions_used.add("re.sub(%r, %r, s): the result contains none of the characters matched by the class (unless the replacement does), and equals s when s contains none" % (pat.z, repl.z))
    f = sfun("re_sub_%s" % "".join("%02x" % ord(c) for c in pat.z + "|" + repl.z), STR, STR)
    r = f(S(subj.z))
    for ch in classes[pat.z]:
        if ch not in repl.z:
            eng.assume(z3.Not(z3.Contains(r, z3.StringVal(ch))))
    return VStr(r)


EXT_IMPL["re.sub"] = re_sub
EXT_IMPL["re.search"] = re_call("search")
EXT_IMPL["re.match"] = re_call("match")


@ext("os.path.basename")
def os_path_basename(eng, world, args, kwargs, node):
    s = eng.force(args[0])
    if is_conc(s.z):
        import posixpath

        return VStr(posixpath.basename(s.z))
    z = S(s.z)
    r = sfun("posix_basename", STR, STR)(z)
    eng.assume(z3.SuffixOf(r, z))
    eng.assume(z3.Not(z3.Contains(r, z3.StringVal("/"))))
    eng.assume(z3.Implies(z3.Not(z3.Contains(z, z3.StringVal("/"))), r == z))
    eng.assume(z3.Implies(z3.Contains(z, z3.StringVal("/")), z3.SuffixOf(z3.Concat(z3.StringVal("/"), r), z)))
    return VStr(r)


@ext("os.path.dirname")
def os_path_dirname(eng, world, args, kwargs, node):
    s = eng.force(args[0])
    if is_conc(s.z):
        import posixpath

        return VStr(posixpath.dirname(s.z))
    z = S(s.z)
    r = sfun("posix_dirname", STR, STR)(z)
    eng.assume(z3.PrefixOf(r, z))
    return VStr(r)


@ext("os.path.join")
def os_path_join(eng, world, args, kwargs, node):
    parts = [eng.force(a) for a in args]
    if all(is_conc(p.z) for p in parts):
        import posixpath

        return VStr(posixpath.join(*[p.z for p in parts]))
    if len(parts) == 2:
        a, b = S(parts[0].z), S(parts[1].z)
        slash = z3.StringVal("/")
        res = z3.If(z3.PrefixOf(slash, b), b, z3.If(z3.Or(z3.Length(a) == 0, z3.SuffixOf(slash, a)), z3.Concat(a, b), z3.Concat(a, slash, b)))
        return VStr(res)
    raise OutOfSubset("os.path.join with %d symbolic parts" % len(parts))


@ext("os.path.split")
def os_path_split(eng, world, args, kwargs, node):
    s = eng.force(args[0])
    if is_conc(s.z):
        import posixpath

        h, t = posixpath.split(s.z)
        return VTuple([VStr(h), VStr(t)])
    z = S(s.z)
    slash = z3.StringVal("/")
    head = sfun("posix_split_head", STR, STR)(z)
    tail = sfun("posix_split_tail", STR, STR)(z)
    h0 = sfun("posix_split_h0", STR, STR)(z)
    eng.assumptions_used.add("posixpath.split(p) [CPython source]: p = h0 + tail with tail the text after the last '/', head = h0 without its trailing slashes unless h0 is all slashes; encoded as defining axioms on uninterpreted head/tail")
    if eng.pc.need_axioms(("posix_split", z.sexpr())):
        allsl = z3.InRe(h0, z3.Star(z3.Re(slash)))
        eng.assume(z == z3.Concat(h0, tail))
        eng.assume(z3.Not(z3.Contains(tail, slash)))
        eng.assume(z3.Or(h0 == z3.StringVal(""), z3.SuffixOf(slash, h0)))
        eng.assume(z3.Implies(allsl, head == h0))
        sl = sfun("posix_split_slashes", STR, STR)(z)
        eng.assume(z3.Implies(z3.Not(allsl), z3.And(h0 == z3.Concat(head, sl), z == z3.Concat(head, sl, tail), z3.Length(head) > 0, z3.Not(z3.SuffixOf(slash, head)),
                                                     z3.InRe(sl, z3.Plus(z3.Re(slash))))))
        eng.assume(z3.PrefixOf(head, z))
    return VTuple([VStr(head), VStr(tail)])


@ext("html.escape")
def html_escape(eng, world, args, kwargs, node):
    import html as _html

    s = eng.force(args[0])
    q = kwargs.get("quote", args[1] if len(args) > 1 else VBool(True))
    q = eng.force(q)
    if not (isinstance(q, VBool) and is_conc(q.z)):
        raise OutOfSubset("html.escape with symbolic quote flag")
    if s is NONE:
        eng.raise_("AttributeError", site=node.lineno)
    fname = "html_escape_q" if q.z else "html_escape_nq"
    eng.assumptions_used.add("html.escape is per-character (distributes over +); its output contains no '<', '>' (and no '\"', \"'\" when quote=True) and '&' only as the start of an entity [html.escape source]")
    r = _homomorph(eng, s.z, fname, lambda c: _html.escape(c, q.z))
    _escape_axioms(eng, r, fname, q.z)
    return VStr(r)


def _escape_axioms(eng, r, fname, quote):
    """Alphabet law on every uninterpreted html_escape application inside r."""
    todo = [r]
    while todo:
        t = todo.pop()
        if z3.is_app(t) and t.decl().name() == fname:
            key = ("escax", t.sexpr())
            if eng.pc.need_axioms(key):
                bad = ["<", ">"] + (['"', "'"] if quote else [])
                for b in bad:
                    eng.assume(z3.Not(z3.Contains(t, z3.StringVal(b))))
        elif z3.is_app(t):
            todo.extend(t.children())


PCT_SAFE = "ABCDEFGHIJKLMNOPQRSTUVWXYZabcdefghijklmnopqrstuvwxyz0123456789_.-~/"


def pct_alphabet_re():
    return z3.Star(z3.Union(*[z3.Re(z3.StringVal(c)) for c in PCT_SAFE + "%"]))


@ext("urllib.parse.quote")
def urllib_quote(eng, world, args, kwargs, node):
    s = eng.force(args[0])
    if len(args) > 1 or "safe" in kwargs or "encoding" in kwargs:
        sv = eng.force(kwargs.get("safe", args[1] if len(args) > 1 else VStr("/")))
        if not (isinstance(sv, VStr) and is_conc(sv.z) and sv.z == "/") or "encoding" in kwargs:
            raise OutOfSubset("urllib.parse.quote with a non-default safe/encoding argument (only the default alphabet is modelled)")
    eng.assumptions_used.add("urllib.parse.quote(s[, errors='surrogateescape']) output is over [A-Za-z0-9_.~/%-] and unquote(quote(s), errors='surrogateescape') == s; quote(str, surrogateescape) == quote(se_encode(str)); empty iff input empty")
    if isinstance(s, VStr) and not s.isbytes:
        err = kwargs.get("errors")
        errs = eng.force(err).z if err is not None else "strict"
        if errs != "surrogateescape":
            ok = sfun("utf8_strict_ok", STR, BOOL)(S(s.z))
            if not eng.branch(ok):
                eng.raise_("UnicodeEncodeError", site=node.lineno)
        b = _homomorph(eng, s.z, "se_encode", lambda c: c.encode("utf-8", "surrogateescape").decode("latin-1"))
    else:
        b = S(s.z)
    q = sfun("pct_enc", STR, STR)
    r = q(b)
    eng.assume(z3.InRe(r, pct_alphabet_re()))
    for ch in '?#"<>& \r\n\t\\|':
        eng.assume(z3.Not(z3.Contains(r, z3.StringVal(ch))))
    eng.assume(sfun("pct_dec_bytes", STR, STR)(r) == b)
    if isinstance(s, VStr) and not s.isbytes and not is_conc(s.z):
        # the string was encodable (no exception above), so decoding gives it back
        eng.assume(sfun("se_decode", STR, STR)(b) == S(s.z))
    eng.assume((z3.Length(r) == 0) == (z3.Length(b) == 0))
    eng.assume(z3.Implies(z3.PrefixOf(z3.StringVal("/"), b), z3.PrefixOf(z3.StringVal("/"), r)))
    return VStr(r)


@ext("urllib.parse.unquote")
def urllib_unquote(eng, world, args, kwargs, node):
    s = eng.force(args[0])
    err = kwargs.get("errors")
    errs = eng.force(err).z if err is not None else "replace"
    eng.assumptions_used.add("urllib.parse.unquote(s, errors='surrogateescape') == se_decode(pct_dec_bytes(s)) for ASCII/any s; never raises")
    b = sfun("pct_dec_bytes", STR, STR)(S(s.z))
    if errs == "surrogateescape":
        r = sfun("se_decode", STR, STR)(b)
        eng.assume(sfun("se_encode", STR, STR)(r) == b)
    else:
        r = sfun("repl_decode", STR, STR)(b)
    return VStr(r)


@ext("mimetypes.guess_type")
def mimetypes_guess_type(eng, world, args, kwargs, node):
    eng.assumptions_used.add("mimetypes.guess_type(name, strict) is a deterministic function of the name and the configured tables (uninterpreted); returns (type|None, encoding|None)")
    name = eng.force(args[0])
    strict = kwargs.get("strict", args[1] if len(args) > 1 else VBool(True))
    tag = "s" if (isinstance(eng.force(strict), VBool) and eng.force(strict).z is True) else "ns"
    z = S(name.z)
    t = sfun("mime_type_" + tag, STR, STR)(z)
    e = sfun("mime_enc_" + tag, STR, STR)(z)
    tn = sfun("mime_type_none_" + tag, STR, BOOL)(z)
    en = sfun("mime_enc_none_" + tag, STR, BOOL)(z)
    eng.assume(z3.Implies(z3.Not(tn), z3.Length(t) > 0))
    eng.assume(z3.Implies(z3.Not(en), z3.Length(e) > 0))
    return VTuple([VOpt(tn, VStr(t)), VOpt(en, VStr(e))])


@ext("pickle.load")
def pickle_load(eng, world, args, kwargs, node):
    """pickle.load(fp): returns the pickled value iff the remaining stream is a complete pickle; otherwise
    raises (EOFError on a truncated stream, UnpicklingError/ValueError/... on damaged bytes)."""
    eng.assumptions_used.add("pickle.load returns x iff the stream is a complete pickle of x (pickle.load(pickle.dump(x)) == x); on a strict prefix or damaged stream it raises EOFError / pickle.UnpicklingError / another Exception subclass")
    fp = eng.force(args[0])
    content = eng.getattr(fp, "content")
    ok = sfun("is_complete_pickle", STR, BOOL)(S(content.z))
    if not eng.branch(ok):
        cls = ["EOFError", "UnpicklingError", "ValueError", "AttributeError"][eng.choose(4, "unpickle_error")]
        raise Raised(VExc(cls, [VStr("bad pickle")]), getattr(node, "lineno", None))
    shape = (eng.contract.opts.get("pickle_shape") if eng.contract else None) or "list[obj:GopherEntry]"
    key = ("unpickled", S(content.z).sexpr())
    if key not in eng.ghost:
        eng.ghost[key] = eng.fresh(shape, "unpickled")
    return eng.ghost[key]


@ext("pickle.dump")
def pickle_dump(eng, world, args, kwargs, node):
    eng.assumptions_used.add("pickle.dump streams a complete pickle of its argument to the file, or raises OSError when a write fails (leaving a prefix)")
    fp = eng.force(args[1])
    if eng.branch_fresh("pickle_dump_fails"):
        fp.fields["content"] = eng.fresh("bytes", "partial_pickle")
        raise Raised(VExc("OSError", oserror_args(eng, "pickle_dump")), getattr(node, "lineno", None))
    fp.fields["content"] = eng.fresh("bytes", "pickled")
    fp.fields["pickled_value"] = args[0]
    eng.assume(sfun("is_complete_pickle", STR, BOOL)(S(fp.fields["content"].z)))
    return NONE


def ext_open(eng, world, args, kwargs, node):
    raise OutOfSubset("open() outside a modelled VFS")


@ext("traceback.print_exc")
def tb_print_exc(eng, world, args, kwargs, node):
    return NONE


@ext("typing.cast")
def typing_cast(eng, world, args, kwargs, node):
    return args[1]


# ---- models used by the ZIP contracts (C16) ------------------------------------------------------------
@ext("re.compile")
def re_compile(eng, world, args, kwargs, node):
    if len(args) > 1 or kwargs:
        raise OutOfSubset("re.compile with flags (only flag-less patterns are modelled)")
    pat = eng.force(args[0])
    o = VOpaque("pattern", z3.Const(eng.fresh_name("pattern"), U))
    f = sfun("re_pattern_search", STR, STR, BOOL)
    eng.assumptions_used.add("a compiled configuration pattern is an unknown predicate on strings (re.compile(config value).search)")

    def search(eng2, o_, a, kw, node2):
        subj = eng2.force(a[0])
        hit = f(S(pat.z), S(subj.z))
        return VOpt(z3.Not(hit), VOpaque("match", z3.Const(eng2.fresh_name("m"), U)))

    o.attrs["methods"] = {"search": search}
    return o


@ext("zipfile.is_zipfile")
def zipfile_is_zipfile(eng, world, args, kwargs, node):
    eng.assumptions_used.add("zipfile.is_zipfile(path) reads the file at path and answers an arbitrary Boolean; it raises nothing (CPython: OSError is caught)")
    return VBool(z3.Bool(eng.fresh_name("is_zipfile")))


@ext("time.mktime")
def time_mktime(eng, world, args, kwargs, node):
    eng.assumptions_used.add("time.mktime is total on the tuples built from ZipInfo.date_time")
    return VReal(z3.Real(eng.fresh_name("mktime")))


@objimpl("ZipFile", "getinfo")
def zipfile_getinfo(eng, world, o, args, kwargs, node):
    eng.assumptions_used.add("ZipFile.getinfo(name) succeeds for every name stored in the member index (the index was built from the same archive)")
    zi = VObj("ZipInfo", name=eng.fresh_name("zipinfo"))
    zi.fieldty = {"file_size": "nat", "date_time": "tuple[int,int,int,int,int,int]", "filename": "str"}
    return zi


@objimpl("ZipFile", "open")
def zipfile_open(eng, world, o, args, kwargs, node):
    eng.assumptions_used.add("ZipFile.open(member) returns a readable binary stream for an indexed member")
    return eng.fresh("obj:RFile", "zipmember")


OBJ_METHODS["ZipFile"] = {"getinfo", "open"}


@ext("codecs.getreader")
def codecs_getreader(eng, world, args, kwargs, node):
    o = VOpaque("streamreader_factory", z3.Const(eng.fresh_name("getreader"), U))
    eng.assumptions_used.add("codecs.getreader(enc)(stream, errors=...) returns a text stream over the same bytes")
    o.attrs["call"] = lambda eng2, a, kw, node2: eng2.fresh("obj:TFile", "reader")
    return o


# ---- text output stream (simpleTAL writes str, not bytes) --------------------------------------------------
@objimpl("TextWFile", "write")
def textwfile_write(eng, world, w, args, kwargs, node):
    data = eng.force(args[0])
    if not isinstance(data, VStr) or data.isbytes:
        eng.raise_("TypeError", site=node.lineno)
    cur = eng.getattr(w, "written")
    w.fields["written"] = eng.concat_strs([cur, data], False)
    if "delta" in w.fields:
        w.fields["delta"] = eng.concat_strs([w.fields["delta"], data], False)
    return NONE


OBJ_METHODS["TextWFile"] = {"write"}
SAFE_TEXT_FUNS = {"html_escape_nq"}


def rfile_readlines(eng, world, f, args, kwargs, node):
    eng.assumptions_used.add("readlines([hint]) returns some list of lines of the stream (their relation to the content is not modelled)")
    n = z3.Int(eng.fresh_name("nlines"))
    eng.assume(n >= 0)
    return eng.symlist(n, "bytes" if f.cls == "RFile" and not getattr(f, "textmode", False) else "str", "lines")


OBJ_IMPL[("RFile", "readlines")] = rfile_readlines
OBJ_IMPL[("TFile", "readlines")] = rfile_readlines


@ext("shelve.open")
def shelve_open(eng, world, args, kwargs, node):
    """shelve.open(path, flag): flag 'n' always creates a new, empty database and never reads what is on disk, so
    only the OS can make it fail; every other flag parses the existing file(s) first, and a damaged database makes
    the dbm layer raise whatever it likes (dbm.error, SyntaxError/ValueError from dbm.dumb, pickle errors, ...)."""
    flag = eng.force(args[1]) if len(args) > 1 else eng.force(kwargs.get("flag", VStr("c")))
    eng.assumptions_used.add("shelve.open(path, 'n') can fail only with OSError; with any other flag a damaged file on disk can raise any exception [dbm / dbm.dumb source]")
    if not (isinstance(flag, VStr) and is_conc(flag.z)):
        raise OutOfSubset("shelve.open with symbolic flag")
    if eng.branch_fresh("shelve_open_fails"):
        if flag.z == "n":
            raise Raised(VExc("OSError", oserror_args(eng, "shelve")), getattr(node, "lineno", None))
        raise Raised(VExc("Exception", [VStr(z3.String(eng.fresh_name("dbm_error")))]), getattr(node, "lineno", None))
    d = VDict({}, sym=(eng.fresh_name("shelf"), "opaque:inode"), valty="opaque:inode")
    d.is_shelf = True
    return d


def _os_id(name):
    def impl(eng, world, args, kwargs, node):
        eng.assumptions_used.add("os.getuid()/geteuid()/getgid()/getegid() return some non-negative integer")
        v = z3.Int(eng.fresh_name(name.replace(".", "_")))
        eng.assume(v >= 0)
        return VInt(v)
    return impl


for _n in ("os.getuid", "os.geteuid", "os.getgid", "os.getegid"):
    EXT_IMPL[_n] = _os_id(_n)
