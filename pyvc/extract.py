"""Mechanical extraction of the code under contract from /repo.

Every run re-parses the repository's own source files with ``ast.parse`` and
locates functions by qualified name ``<relative file>::<Class>.<function>`` or
``<relative file>::<function>``.  Nothing is copied by hand; what is dropped
is listed in DROPPED below and counted per function.
"""
import ast
import hashlib
import os

REPO = os.environ.get("PYVC_REPO", "/repo")

SOURCE_DIRS = ("pygopherd", "simpletal")

DROPPED = [
    "type annotations",
    "docstrings and bare string expression statements",
    "typing.cast(...) expression statements",
    "if typing.TYPE_CHECKING: blocks",
    "comments",
]


class FuncInfo:
    def __init__(self, relfile, cls, node, src):
        self.relfile = relfile
        self.cls = cls  # class name or None
        self.node = node
        self.name = node.name
        self.src = src
        self.sha = hashlib.sha256(src.encode()).hexdigest()

    @property
    def qualname(self):
        if self.cls:
            return "%s::%s.%s" % (self.relfile, self.cls, self.name)
        return "%s::%s" % (self.relfile, self.name)

    def nstmts(self):
        return sum(1 for n in ast.walk(self.node) if isinstance(n, ast.stmt)) - 1


class ClassInfo:
    def __init__(self, relfile, node):
        self.relfile = relfile
        self.node = node
        self.name = node.name
        self.bases = []
        for b in node.bases:
            if isinstance(b, ast.Name):
                self.bases.append(b.id)
            elif isinstance(b, ast.Attribute):
                self.bases.append(b.attr)
        self.methods = {}
        self.attrs = {}  # simple class-level constant assignments
        for st in node.body:
            if isinstance(st, ast.FunctionDef):
                self.methods[st.name] = st
            elif isinstance(st, ast.Assign) and len(st.targets) == 1 and isinstance(st.targets[0], ast.Name):
                self.attrs[st.targets[0].id] = st.value


class Repo:
    def __init__(self, root=None):
        self.root = root or REPO
        self.files = {}  # relfile -> (src, tree)
        self.classes = {}  # name -> [ClassInfo]
        self.funcs = {}  # qualname -> FuncInfo
        self.modfuncs = {}  # relfile -> {name: FuncInfo}
        self.modassigns = {}  # relfile -> {name: ast value}
        for d in SOURCE_DIRS:
            for dp, dn, fn in os.walk(os.path.join(self.root, d)):
                for f in sorted(fn):
                    if f.endswith(".py"):
                        self._load(os.path.relpath(os.path.join(dp, f), self.root))

    def _load(self, relfile):
        with open(os.path.join(self.root, relfile), encoding="utf-8") as fh:
            src = fh.read()
        tree = ast.parse(src)
        self.files[relfile] = (src, tree)
        self.modfuncs[relfile] = {}
        self.modassigns[relfile] = {}
        for st in tree.body:
            if isinstance(st, ast.ClassDef):
                ci = ClassInfo(relfile, st)
                self.classes.setdefault(ci.name, []).append(ci)
                for m in ci.methods.values():
                    fi = FuncInfo(relfile, ci.name, m, ast.get_source_segment(src, m))
                    self.funcs[fi.qualname] = fi
            elif isinstance(st, ast.FunctionDef):
                fi = FuncInfo(relfile, None, st, ast.get_source_segment(src, st))
                self.funcs[fi.qualname] = fi
                self.modfuncs[relfile][st.name] = fi
            elif isinstance(st, ast.Assign) and len(st.targets) == 1 and isinstance(st.targets[0], ast.Name):
                self.modassigns[relfile][st.targets[0].id] = st.value
            elif isinstance(st, ast.AnnAssign) and isinstance(st.target, ast.Name) and st.value is not None:
                self.modassigns[relfile][st.target.id] = st.value

    # ---- class hierarchy (read from the AST, never hard-coded) -------------
    def cls(self, name, relfile=None):
        lst = self.classes.get(name, [])
        if relfile:
            for c in lst:
                if c.relfile == relfile:
                    return c
        return lst[0] if lst else None

    def mro(self, name):
        out = []
        seen = set()

        def rec(n):
            c = self.cls(n)
            if c is None or n in seen:
                return
            seen.add(n)
            out.append(c)
            for b in c.bases:
                rec(b)

        rec(name)
        return out

    def issubclass(self, name, base):
        return any(c.name == base for c in self.mro(name))

    def subclasses(self, base):
        return sorted(n for n in self.classes if self.issubclass(n, base))

    def resolve_method(self, clsname, meth, after=None):
        """Return FuncInfo of the first definition of `meth` in the MRO of clsname.
        `after`: start the search after this class (for super())."""
        started = after is None
        for c in self.mro(clsname):
            if not started:
                if c.name == after:
                    started = True
                continue
            if meth in c.methods:
                return self.funcs["%s::%s.%s" % (c.relfile, c.name, meth)]
        return None

    def class_attr(self, clsname, attr):
        for c in self.mro(clsname):
            if attr in c.attrs:
                return c.attrs[attr]
        return None

    def get(self, qualname):
        return self.funcs.get(qualname)

    def relfile_of_class(self, name):
        c = self.cls(name)
        return c.relfile if c else None


def strip_dropped(body):
    """Remove what extraction drops: docstrings / bare strings, typing.cast stmts,
    TYPE_CHECKING blocks.  Returns (kept_statements, n_dropped)."""
    kept = []
    dropped = 0
    for st in body:
        if isinstance(st, ast.Expr) and isinstance(st.value, ast.Constant) and isinstance(st.value.value, str):
            dropped += 1
            continue
        if isinstance(st, ast.Expr) and isinstance(st.value, ast.Call):
            f = st.value.func
            if isinstance(f, ast.Attribute) and f.attr == "cast" and isinstance(f.value, ast.Name) and f.value.id == "typing":
                dropped += 1
                continue
        if isinstance(st, ast.If):
            t = st.test
            if isinstance(t, ast.Attribute) and t.attr == "TYPE_CHECKING":
                dropped += 1
                continue
        kept.append(st)
    return kept, dropped
