"""Symbolic value domain of pyvc.

Every Python value manipulated by the code under contract is one of the V*
classes below.  Scalars hold either a concrete Python value or a z3 term; the
containers are ordinary (mutable) Python objects, so aliasing created by the
code under contract is aliasing in the executor too.
"""
import z3


class V:
    pass


class VNoneT(V):
    def __repr__(self):
        return "None"


NONE = VNoneT()


class VBool(V):
    def __init__(self, z):
        self.z = z

    def __repr__(self):
        return "VBool(%s)" % (self.z,)


class VInt(V):
    def __init__(self, z):
        self.z = z

    def __repr__(self):
        return "VInt(%s)" % (self.z,)


class VReal(V):
    def __init__(self, z):
        self.z = z


class VStr(V):
    """str (isbytes=False) or bytes (isbytes=True); both are SMT strings, bytes
    additionally constrained to code points < 256 when created symbolically."""

    def __init__(self, z, isbytes=False):
        self.z = z
        self.isbytes = isbytes

    def __repr__(self):
        return "V%s(%s)" % ("Bytes" if self.isbytes else "Str", self.z)


class VList(V):
    """A list.  Concrete spine: self.items is a Python list of V.
    Symbolic spine: self.items is None, self.n is a z3 Int, self.get(i) -> V."""

    def __init__(self, items=None, n=None, get=None, elemty=None):
        self.items = items
        self.n = n
        self.get = get
        self.elemty = elemty

    def concrete(self):
        return self.items is not None

    def __repr__(self):
        if self.items is not None:
            return "VList(%r)" % (self.items,)
        return "VList(n=%s)" % (self.n,)


class VTuple(V):
    def __init__(self, items):
        self.items = list(items)

    def __repr__(self):
        return "VTuple(%r)" % (self.items,)


class VDict(V):
    """dict with concrete keys (Python str/int) in insertion order, plus an
    optional symbolic remainder given by two callables has(k)->z3 Bool and
    get(k)->V for symbolic / unknown keys."""

    def __init__(self, items=None, sym=None, valty=None):
        self.items = dict(items or {})
        self.sym = sym  # None or (name, valty)
        self.valty = valty
        self.overrides = []  # list of (zkey, V) for symbolic stores, newest last

    def __repr__(self):
        return "VDict(%r,sym=%r)" % (self.items, self.sym)


class VObj(V):
    _ids = 0

    def __init__(self, cls, fields=None, name=None):
        self.cls = cls
        self.fields = dict(fields or {})
        self.name = name or cls
        self.entry = {}  # values fields had at function entry (lazily materialised)
        self.fieldty = {}
        self.unset = set()  # fields known to be unset (hasattr false)
        self.maybe = {}  # field -> z3 Bool "is set" for hasattr flags

    def __repr__(self):
        return "VObj(%s:%s)" % (self.name, self.cls)


class VOpt(V):
    """Lazy optional: None when isnone, else inner."""

    def __init__(self, isnone, inner):
        self.isnone = isnone
        self.inner = inner

    def __repr__(self):
        return "VOpt(%s,%r)" % (self.isnone, self.inner)


class LazyOSArgs:
    """Arguments of a platform-raised OSError, decided (one argument or errno+strerror) only when the code
    looks at them."""

    def __init__(self, hint):
        self.hint = hint


class VExc(V):
    def __init__(self, cls, args=None, attrs=None):
        self.cls = cls
        self.args = args if isinstance(args, LazyOSArgs) else list(args or [])
        self.attrs = dict(attrs or {})
        self.fields = self.attrs

    def __repr__(self):
        return "VExc(%s,%r)" % (self.cls, self.args)


class VClass(V):
    def __init__(self, name):
        self.name = name

    def __repr__(self):
        return "VClass(%s)" % self.name


class VFunc(V):
    """Reference to a repo function (FuncInfo) or an external/builtin (dotted name)."""

    def __init__(self, fi=None, ext=None, selfobj=None, selfcls=None):
        self.fi = fi
        self.ext = ext
        self.selfobj = selfobj
        self.selfcls = selfcls  # class used for resolution (explicit Base.method(self))

    def __repr__(self):
        return "VFunc(%s)" % (self.fi.qualname if self.fi else self.ext)


class VModule(V):
    def __init__(self, name):
        self.name = name

    def __repr__(self):
        return "VModule(%s)" % self.name


U = z3.DeclareSort("U")


class VOpaque(V):
    """A value the proofs never look inside (a handler class object, a message,
    a match object, ...).  Equality is equality of the underlying U constant."""

    def __init__(self, tag, z=None, attrs=None):
        self.tag = tag
        self.z = z
        self.attrs = dict(attrs or {})

    def __repr__(self):
        return "VOpaque(%s,%s)" % (self.tag, self.z)


def is_conc(z):
    return not isinstance(z, z3.ExprRef)


def zint(v):
    return z3.IntVal(v) if isinstance(v, int) and not isinstance(v, bool) else v


def zstr(v):
    return z3.StringVal(v) if isinstance(v, str) else v


def zbool(v):
    return z3.BoolVal(v) if isinstance(v, bool) else v
