"""Exact rewrites of contains / prefixof / suffixof over concatenations with a *concrete* needle.

String solvers are weak at `contains(a ++ b, "lit")`.  These functions return a formula that is
equivalent in the theory of strings (every occurrence of the needle lies inside one part or
straddles a boundary) but only mentions the atomic parts.  Being equivalences they add no
assumption."""
import z3


def parts_of(t):
    if z3.is_app(t) and t.decl().kind() == z3.Z3_OP_SEQ_CONCAT:
        out = []
        for c in t.children():
            out.extend(parts_of(c))
        return out
    return [t]


def _lit(t):
    return z3.is_string_value(t)


def _sv(s):
    return z3.StringVal(s)


def _cat(parts):
    return parts[0] if len(parts) == 1 else z3.Concat(*parts)


def _is_ite(t):
    return z3.is_app(t) and t.decl().kind() == z3.Z3_OP_ITE


def contains(hay, needle):
    """hay: z3 string term; needle: Python str."""
    if _is_ite(hay):
        g, a, b = hay.children()
        return z3.If(g, contains(a, needle), contains(b, needle))
    parts = parts_of(hay)
    if len(parts) == 1 or len(needle) == 0 or len(needle) > 6 or len(parts) > 6:
        return z3.Contains(hay, _sv(needle))
    return _contains(parts, needle)


def _contains(parts, p):
    if len(parts) == 1:
        return z3.Contains(parts[0], _sv(p))
    a, rest = parts[0], parts[1:]
    alts = [z3.Contains(a, _sv(p)), _contains(rest, p)]
    for k in range(1, len(p)):
        alts.append(z3.And(z3.SuffixOf(_sv(p[:k]), a), _prefix(rest, p[k:])))
    return z3.Or(*alts)


def prefixof(q, s):
    """q: Python str; s: z3 term.  s startswith q."""
    if _is_ite(s):
        g, a, b = s.children()
        return z3.If(g, prefixof(q, a), prefixof(q, b))
    parts = parts_of(s)
    if len(parts) == 1 or len(q) > 8 or len(parts) > 6:
        return z3.PrefixOf(_sv(q), s)
    return _prefix(parts, q)


def _prefix(parts, q):
    if q == "":
        return z3.BoolVal(True)
    if len(parts) == 1:
        return z3.PrefixOf(_sv(q), parts[0])
    a, rest = parts[0], parts[1:]
    alts = [z3.PrefixOf(_sv(q), a)]
    for j in range(0, len(q)):
        alts.append(z3.And(a == _sv(q[:j]), _prefix(rest, q[j:])))
    return z3.Or(*alts)


def suffixof(q, s):
    if _is_ite(s):
        g, a, b = s.children()
        return z3.If(g, suffixof(q, a), suffixof(q, b))
    parts = parts_of(s)
    if len(parts) == 1 or len(q) > 8 or len(parts) > 6:
        return z3.SuffixOf(_sv(q), s)
    return _suffix(parts, q)


def _suffix(parts, q):
    if q == "":
        return z3.BoolVal(True)
    if len(parts) == 1:
        return z3.SuffixOf(_sv(q), parts[0])
    b, rest = parts[-1], parts[:-1]
    alts = [z3.SuffixOf(_sv(q), b)]
    for j in range(0, len(q)):
        # last j characters of q are exactly b, the first len(q)-j end the rest
        tail = q[len(q) - j:] if j else ""
        alts.append(z3.And(b == _sv(tail), _suffix(rest, q[: len(q) - j])))
    return z3.Or(*alts)


def prefixof_terms(p, s):
    """Both symbolic: cancel a common leading part (root ++ x  startswith  root ++ y)."""
    if _is_ite(s):
        g, a, b = s.children()
        return z3.If(g, prefixof_terms(p, a), prefixof_terms(p, b))
    pp, sp = parts_of(p), parts_of(s)
    i = 0
    while i < len(pp) and i < len(sp) and pp[i].eq(sp[i]):
        i += 1
    if i == 0:
        return z3.PrefixOf(p, s)
    pp, sp = pp[i:], sp[i:]
    if not pp:
        return z3.BoolVal(True)
    if not sp:
        return _cat(pp) == _sv("")
    pr = _cat(pp)
    if all(_lit(x) for x in pp):
        from .solve import _unesc
        return prefixof("".join(_unesc(x.as_string()) for x in pp), _cat(sp))
    return z3.PrefixOf(pr, _cat(sp))


# ---- saturation of a path condition with valid consequences (substring order) -----------------------------
def implied_nocontains(pc, cap=120, timeout_ms=150):
    """Unit facts not contains(t, "lit") that follow from pc propositionally (decided on the string-free
    abstraction, where z3 honours its timeout)."""
    from .abstract import abstract, SIDE
    atoms = {}
    seen = set()
    todo = list(pc)
    while todo and len(atoms) < cap:
        t = todo.pop()
        if t.get_id() in seen or not z3.is_app(t):
            continue
        seen.add(t.get_id())
        if t.decl().kind() == z3.Z3_OP_SEQ_CONTAINS and z3.is_string_value(t.arg(1)):
            atoms[t.get_id()] = t
            continue
        if t.sort().kind() == z3.Z3_BOOL_SORT:
            todo.extend(t.children())
    if not atoms:
        return []
    s = z3.Solver()
    s.set("timeout", timeout_ms)
    try:
        for c in pc:
            s.add(abstract(c))
    except (ValueError, z3.Z3Exception):
        return []
    for c in SIDE:
        s.add(c)
    out = []
    for a in atoms.values():
        s.push()
        s.add(abstract(a))
        if s.check() == z3.unsat:
            out.append(z3.Not(a))
        s.pop()
    return out


def saturate(pc, limit=400):
    """Valid consequences of the unit facts of a path condition that string solvers do not find on their own:
    the substring order (prefixof / suffixof / contains / x == a ++ b) is transitive, and a string without an
    occurrence of a literal has no substring with one.  Returns a list of derived facts (each is implied by
    the conjunction of pc, so adding them changes nothing semantically)."""
    units = []
    for c in list(pc) + implied_nocontains(pc):
        todo = [c]
        while todo:
            t = todo.pop()
            if z3.is_and(t):
                todo.extend(t.children())
            else:
                units.append(t)
    sub = {}   # id(small) -> (small, {id(big): (big, kind)})   kind: 'p' prefix, 's' suffix, 'c' substring
    terms = {}
    nocontain = {}  # id(big) -> set of literal strings

    def edge(a, b, kind):
        if a.get_id() == b.get_id():
            return
        terms[a.get_id()] = a
        terms[b.get_id()] = b
        sub.setdefault(a.get_id(), {})
        old = sub[a.get_id()].get(b.get_id())
        if old is None or (old == "c" and kind != "c"):
            sub[a.get_id()][b.get_id()] = kind

    for u in units:
        if not z3.is_app(u):
            continue
        k = u.decl().kind()
        if k == z3.Z3_OP_SEQ_PREFIX:
            edge(u.arg(0), u.arg(1), "p")
        elif k == z3.Z3_OP_SEQ_SUFFIX:
            edge(u.arg(0), u.arg(1), "s")
        elif k == z3.Z3_OP_SEQ_CONTAINS:
            edge(u.arg(1), u.arg(0), "c")
        elif k == z3.Z3_OP_EQ and u.arg(0).sort().kind() == z3.Z3_SEQ_SORT:
            for x, y in ((u.arg(0), u.arg(1)), (u.arg(1), u.arg(0))):
                ps = parts_of(y)
                if len(ps) > 1:
                    edge(ps[0], x, "p")
                    edge(ps[-1], x, "s")
                    for m in ps[1:-1]:
                        edge(m, x, "c")
                    for i in range(2, len(ps)):
                        edge(_cat(ps[:i]), x, "p")
        elif k == z3.Z3_OP_NOT:
            v = u.arg(0)
            if z3.is_app(v) and v.decl().kind() == z3.Z3_OP_SEQ_CONTAINS and z3.is_string_value(v.arg(1)):
                terms[v.arg(0).get_id()] = v.arg(0)
                nocontain.setdefault(v.arg(0).get_id(), {})[v.arg(1).get_id()] = v.arg(1)
    # transitive closure (small graphs)
    changed = True
    rounds = 0
    while changed and rounds < 6:
        changed = False
        rounds += 1
        for a, outs in list(sub.items()):
            for b, k1 in list(outs.items()):
                for c, k2 in list(sub.get(b, {}).items()):
                    if c == a:
                        continue
                    k = k1 if k1 == k2 and k1 in "ps" else "c"
                    old = outs.get(c)
                    if old is None or (old == "c" and k != "c"):
                        outs[c] = k
                        changed = True
    out = []
    for a, outs in sub.items():
        ta = terms[a]
        for b, k in outs.items():
            tb = terms[b]
            if k == "p":
                out.append(z3.PrefixOf(ta, tb))
            elif k == "s":
                out.append(z3.SuffixOf(ta, tb))
            for lit in nocontain.get(b, {}).values():
                if z3.is_string_value(ta):
                    continue
                out.append(z3.Not(z3.Contains(ta, lit)))
            if len(out) > limit:
                return out
    return out
