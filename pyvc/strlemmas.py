"""Exact rewrites of contains / prefixof / suffixof over concatenations with a *concrete* needle.

String solvers are weak at `contains(a ++ b, "lit")`.  These functions return a formula that is
equivalent in the theory of strings (every occurrence of the needle lies inside one part or
straddles a boundary) but only mentions the atomic parts.  Being equivalences they add no
assumption."""
import z3


def parts_of(t):
    if z3.is_app(t) and t.decl().kind() == z3.Z3_OP_SEQ_CONCAT:
        out = []
        for c in t.children():
            out.extend(parts_of(c))
        return out
    return [t]


def _lit(t):
    return z3.is_string_value(t)


def _sv(s):
    return z3.StringVal(s)


def _cat(parts):
    return parts[0] if len(parts) == 1 else z3.Concat(*parts)


def _is_ite(t):
    return z3.is_app(t) and t.decl().kind() == z3.Z3_OP_ITE


def contains(hay, needle):
    """hay: z3 string term; needle: Python str."""
    if _is_ite(hay):
        g, a, b = hay.children()
        return z3.If(g, contains(a, needle), contains(b, needle))
    parts = parts_of(hay)
    if len(parts) == 1 or len(needle) == 0 or len(needle) > 6 or len(parts) > 6:
        return z3.Contains(hay, _sv(needle))
    return _contains(parts, needle)


def _contains(parts, p):
    if len(parts) == 1:
        return z3.Contains(parts[0], _sv(p))
    a, rest = parts[0], parts[1:]
    alts = [z3.Contains(a, _sv(p)), _contains(rest, p)]
    for k in range(1, len(p)):
        alts.append(z3.And(z3.SuffixOf(_sv(p[:k]), a), _prefix(rest, p[k:])))
    return z3.Or(*alts)


def prefixof(q, s):
    """q: Python str; s: z3 term.  s startswith q."""
    if _is_ite(s):
        g, a, b = s.children()
        return z3.If(g, prefixof(q, a), prefixof(q, b))
    parts = parts_of(s)
    if len(parts) == 1 or len(q) > 8 or len(parts) > 6:
        return z3.PrefixOf(_sv(q), s)
    return _prefix(parts, q)


def _prefix(parts, q):
    if q == "":
        return z3.BoolVal(True)
    if len(parts) == 1:
        return z3.PrefixOf(_sv(q), parts[0])
    a, rest = parts[0], parts[1:]
    alts = [z3.PrefixOf(_sv(q), a)]
    for j in range(0, len(q)):
        alts.append(z3.And(a == _sv(q[:j]), _prefix(rest, q[j:])))
    return z3.Or(*alts)


def suffixof(q, s):
    if _is_ite(s):
        g, a, b = s.children()
        return z3.If(g, suffixof(q, a), suffixof(q, b))
    parts = parts_of(s)
    if len(parts) == 1 or len(q) > 8 or len(parts) > 6:
        return z3.SuffixOf(_sv(q), s)
    return _suffix(parts, q)


def _suffix(parts, q):
    if q == "":
        return z3.BoolVal(True)
    if len(parts) == 1:
        return z3.SuffixOf(_sv(q), parts[0])
    b, rest = parts[-1], parts[:-1]
    alts = [z3.SuffixOf(_sv(q), b)]
    for j in range(0, len(q)):
        # last j characters of q are exactly b, the first len(q)-j end the rest
        tail = q[len(q) - j:] if j else ""
        alts.append(z3.And(b == _sv(tail), _suffix(rest, q[: len(q) - j])))
    return z3.Or(*alts)


def prefixof_terms(p, s):
    """Both symbolic: cancel a common leading part (root ++ x  startswith  root ++ y)."""
    if _is_ite(s):
        g, a, b = s.children()
        return z3.If(g, prefixof_terms(p, a), prefixof_terms(p, b))
    pp, sp = parts_of(p), parts_of(s)
    i = 0
    while i < len(pp) and i < len(sp) and pp[i].eq(sp[i]):
        i += 1
    if i == 0:
        return z3.PrefixOf(p, s)
    pp, sp = pp[i:], sp[i:]
    if not pp:
        return z3.BoolVal(True)
    if not sp:
        return _cat(pp) == _sv("")
    pr = _cat(pp)
    if all(_lit(x) for x in pp):
        from .solve import _unesc
        return prefixof("".join(_unesc(x.as_string()) for x in pp), _cat(sp))
    return z3.PrefixOf(pr, _cat(sp))
