"""Sound over-approximation of satisfiability used for (a) pruning infeasible branches during path
enumeration and (b) cheaply discharging VCs that do not need string reasoning.

Every atom that mentions a string / sequence / regular-expression term, and every quantifier, is
replaced by a fresh propositional (or integer) constant keyed by the z3 term id, so equal terms
get equal constants.  The result is pure linear integer/real arithmetic + uninterpreted
functions over non-string sorts, on which z3 honours its timeout.

If the abstraction is unsat, the original is unsat (the abstraction only forgets constraints).
Nothing is ever concluded from an abstract `sat`.
"""
import z3

_cache = {}
SIDE = []  # valid facts about abstraction constants (lengths are non-negative, indexof >= -1)


def _is_strish(sort):
    k = sort.kind()
    return k in (z3.Z3_SEQ_SORT, z3.Z3_RE_SORT, z3.Z3_CHAR_SORT)


def _mentions_str(e):
    if _is_strish(e.sort()):
        return True
    return False


def abstract(e):
    """Return an abstraction of Bool/Int/Real term e with no string-sorted subterms."""
    key = e.get_id()
    r = _cache.get(key)
    if r is not None:
        return r[1]
    r = _abs(e)
    _cache[key] = (e, r)  # keep e alive: ids of dead terms may be reused
    return r


def _const_for(e):
    s = e.sort()
    name = "abs!%d" % e.get_id()
    if s.kind() == z3.Z3_BOOL_SORT:
        return z3.Bool(name)
    if s.kind() == z3.Z3_INT_SORT:
        return z3.Int(name)
    if s.kind() == z3.Z3_REAL_SORT:
        return z3.Real(name)
    return z3.Const(name, s)


def _abs(e):
    if z3.is_quantifier(e):
        return _const_for(e)
    if not z3.is_app(e):
        return _const_for(e)
    if _is_strish(e.sort()):
        raise ValueError("string-sorted term reached")
    ch = e.children()
    if any(_is_strish(c.sort()) for c in ch):
        c_ = _const_for(e)
        k = e.decl().kind()
        if k == z3.Z3_OP_SEQ_LENGTH:
            SIDE.append(c_ >= 0)
        elif k == z3.Z3_OP_SEQ_INDEX:
            SIDE.append(c_ >= -1)
        return c_
    if not ch:
        return e
    k = e.decl().kind()
    new = []
    for c in ch:
        new.append(abstract(c))
    if k == z3.Z3_OP_UNINTERPRETED:
        return e.decl()(*new)
    try:
        return e.decl()(*new)
    except Exception:
        return _const_for(e)


def feasible(pc_abs, extra, timeout_ms=300):
    """pc_abs: list of already abstracted constraints.  False only if definitely infeasible."""
    s = z3.Solver()
    s.set("timeout", timeout_ms)
    for c in pc_abs:
        s.add(c)
    s.add(abstract(extra))
    return s.check() != z3.unsat


def unsat_abstract(pc, goal, timeout_ms=1500):
    """True if pc /\\ not goal is unsat already in the abstraction."""
    s = z3.Solver()
    s.set("timeout", timeout_ms)
    for c in pc:
        s.add(abstract(c))
    s.add(z3.Not(abstract(goal)))
    for c in SIDE:
        s.add(c)
    return s.check() == z3.unsat
