"""The world around the executor: contract registry, name resolution, call dispatch
(contract application / inlining / external models), verification of a target."""
import ast
import copy
import os

import z3

from .values import *  # noqa
from .engine import (Engine, Frame, OutOfSubset, PathEnd, Raised, ReturnEx, BreakEx, ContinueEx,
                     EXC_PARENT, exc_canon, exc_isa, _dotted, _split_top)
from .extract import Repo, FuncInfo, strip_dropped
from . import externals as X

VERIF = os.path.dirname(os.path.dirname(os.path.abspath(__file__)))


class Contract:
    def __init__(self, qualname, **kw):
        self.qualname = qualname
        self.selfclass = kw.pop("selfclass", None)  # str | list[str] | None
        self.params = kw.pop("params", {})
        self.fields = kw.pop("fields", {})
        self.globals = dict(kw.pop("globals", {}))
        self.requires = _lst(kw.pop("requires", []))
        self.ensures = _lst(kw.pop("ensures", []))
        self.ensures_assumed = _lst(kw.pop("ensures_assumed", []))
        self.ensures_internal = _lst(kw.pop("ensures_internal", []))  # verified, but not handed to callers (talk about concrete classes)  # visible to callers only; not verified (ghost definitions)
        self.raises = dict(kw.pop("raises", {}))  # exc -> condition string (pre-state) or True
        self.on_raise = {k: list(v) for k, v in kw.pop("on_raise", {}).items()}  # exc -> [clauses]
        self.modifies = kw.pop("modifies", None)  # None = unchecked; list of "self.x" / "g:mod.name" / "entry.mimetype"
        self.loops = kw.pop("loops", {})
        self.returns = kw.pop("returns", None)
        self.props = set(kw.pop("props", []))
        self.canary = kw.pop("canary", None)
        self.ghost = kw.pop("ghost", {})
        self.inline = kw.pop("inline", False)
        self.assumed = kw.pop("assumed", False)  # contract assumed, body not verified (external / out of subset)
        self.note = kw.pop("note", "")
        self.setup = kw.pop("setup", None)  # python callable(eng, fr) run before body (ghost init)
        self.locals = kw.pop("locals", {})
        self.label = kw.pop("label", None)
        self.replay = kw.pop("replay", None)
        self.externals = kw.pop("externals", {})
        self.opts = kw.pop("opts", {})
        self.init = kw.pop("init", {})
        self.use_lemmas = kw.pop("use_lemmas", [])
        self.result_elem = kw.pop("result_elem", None)
        self.at = kw.pop("at", {})  # "after:<first line of statement>" -> [("assert", clause) | ("ghost", name, expr)]  # predicate over `elem` holding for every element of a list result  # [(lemma name, {lemma var: expression in this function's entry state})]  # field -> defining expression (class invariant given as an equation)
        if kw:
            raise TypeError("unknown contract keys %r" % list(kw))

    def classes(self):
        if self.selfclass is None:
            return [None]
        if isinstance(self.selfclass, str):
            return [self.selfclass]
        return list(self.selfclass)


class Lemma:
    def __init__(self, name, forall, hyp, goal, props, split=False, note=""):
        self.name = name
        self.forall = forall
        self.hyp = _lst(hyp)
        self.goal = _lst(goal)
        self.props = set(props)
        self.note = note


def _lst(x):
    if x is None:
        return []
    if isinstance(x, str):
        return [x]
    return list(x)


class VSuper(V):
    def __init__(self, obj, after):
        self.obj = obj
        self.after = after


class World:
    def __init__(self, repo=None):
        self.repo = repo or Repo()
        self.contracts = {}  # (qualname, cls|None) -> Contract
        self.lemmas = {}
        self.inline_ok = set()  # qualnames that may be inlined (accessors)
        self.field_decl = {}  # class -> {field: type}
        self.spec = None
        self._expr_cache = {}
        self._imports = {}
        self.astchecks = []  # (name, props, fn(world)->(ok, detail))
        self.soft_ast = set()
        self.finalizers = []
        self.always_standin = {}  # property -> [(function, why)]: bounded scenario harnesses run on every check (parts no contract reaches)
        self.load_spec()

    # ---- registration API (used by /verif/contracts/*.py) ---------------------------
    def contract(self, qualname, **kw):
        c = Contract(qualname, **kw)
        for k in c.classes():
            self.contracts[(qualname, k)] = c
        return c

    def lemma(self, name, forall, hyp, goal, props, note=""):
        self.lemmas[name] = Lemma(name, forall, hyp, goal, props, note=note)

    def inline(self, *qualnames):
        self.inline_ok.update(qualnames)

    def fields(self, cls, **types):
        self.field_decl.setdefault(cls, {}).update(types)

    def astcheck(self, name, props, fn, note="", soft=False):
        """soft: a *shape* obligation ("this function still has the form the argument was made for"): when it
        fails nothing is decided - UNDECIDED plus the property's scenario harness - instead of a violation."""
        self.astchecks.append((name, set(props), fn, note))
        if soft:
            self.soft_ast.add(name)

    def field_types(self, cls):
        out = {}
        for c in reversed(self.repo.mro(cls)):
            out.update(self.field_decl.get(c.name, {}))
        if not self.repo.mro(cls):
            out.update(self.field_decl.get(cls, {}))
        return out

    def has_any_contract(self, qualname):
        return any(q == qualname for (q, _k) in self.contracts)

    def find_contract(self, qualname, cls):
        if cls is not None:
            for c in self.repo.mro(cls):
                k = (qualname, c.name)
                if k in self.contracts:
                    return self.contracts[k]
        return self.contracts.get((qualname, None))

    # ---- spec functions ----------------------------------------------------------------
    def load_spec(self):
        path = os.path.join(VERIF, "spec", "specs.py")
        self.specfuncs = {}
        if os.path.exists(path):
            src = open(path).read()
            tree = ast.parse(src)
            self.spec_tree = tree
            for st in tree.body:
                if isinstance(st, ast.FunctionDef):
                    self.specfuncs[st.name] = FuncInfo("spec/specs.py", None, st, ast.get_source_segment(src, st))
            self.specassigns = {st.targets[0].id: st.value for st in tree.body if isinstance(st, ast.Assign) and isinstance(st.targets[0], ast.Name)}

    def parse_expr(self, s):
        if s not in self._expr_cache:
            self._expr_cache[s] = ast.parse(s.strip(), mode="eval").body
        return self._expr_cache[s]

    # ---- exceptions ---------------------------------------------------------------------
    def exc_isa(self, n, base):
        n = exc_canon(n)
        if n not in EXC_PARENT:
            # repo-defined exception: read bases from AST
            ci = self.repo.cls(n)
            if ci is not None:
                if n == base:
                    return True
                return any(self.exc_isa(b, base) for b in ci.bases)
        return exc_isa(n, base)

    def exc_str(self, eng, v):
        X.force_oserror_args(eng, v)
        ci = self.repo.cls(v.cls)
        if ci is not None and "__str__" in ci.methods:
            fi = self.repo.resolve_method(v.cls, "__str__")
            return eng.force(self.inline_call(eng, fi, [v], {}, v.cls))
        if len(v.args) == 0:
            return VStr("")
        if len(v.args) == 1:
            return eng.to_str(v.args[0])
        if exc_isa(v.cls, "OSError") and len(v.args) >= 2:
            f = z3.Function("oserror_str", z3.IntSort(), z3.StringSort(), z3.StringSort())
            a0 = eng.force(v.args[0])
            a1 = eng.force(v.args[1])
            if isinstance(a0, VInt) and isinstance(a1, VStr):
                return VStr(f(zint(a0.z), zstr(a1.z)))
        return VStr(z3.String(eng.fresh_name("exc_str")))

    def exc_attr(self, eng, v, attr):
        if attr == "from_wfile":
            # ghost flag: was this OSError raised by a write to the client socket (fault model)?
            if attr not in v.attrs:
                v.attrs[attr] = VBool(z3.Bool(eng.fresh_name("exc_from_wfile")))
            return v.attrs[attr]
        decl = self.field_decl.get(v.cls)
        if decl and attr in decl:
            v.attrs[attr] = eng.fresh(decl[attr], "exc_%s_%s" % (v.cls, attr))
            return v.attrs[attr]
        if attr in ("errno", "strerror") and exc_isa(v.cls, "OSError"):
            X.force_oserror_args(eng, v)
            if len(v.args) >= 2:
                return v.args[0] if attr == "errno" else v.args[1]
            return NONE
        if attr == "__class__":
            return VClass(v.cls)
        raise OutOfSubset("exception attribute %s" % attr)

    # ---- name resolution -----------------------------------------------------------------
    def imports(self, relfile):
        if relfile in self._imports:
            return self._imports[relfile]
        tab = {}
        if relfile == "spec/specs.py" or relfile in self.repo.files:
            tree = self.spec_tree if relfile == "spec/specs.py" else self.repo.files[relfile][1]
            for st in ast.walk(tree):
                if isinstance(st, ast.Import):
                    for a in st.names:
                        if a.asname:
                            tab[a.asname] = ("module", a.name)
                        else:
                            tab[a.name.split(".")[0]] = ("module", a.name.split(".")[0])
                elif isinstance(st, ast.ImportFrom) and st.module:
                    for a in st.names:
                        tab[a.asname or a.name] = ("from", st.module, a.name)
        self._imports[relfile] = tab
        return tab

    def modfile(self, dotted):
        p = dotted.replace(".", "/")
        if p + ".py" in self.repo.files:
            return p + ".py"
        if p + "/__init__.py" in self.repo.files:
            return p + "/__init__.py"
        return None

    def resolve_from_import(self, eng, module, name):
        rf = self.modfile(module)
        if rf is not None:
            if rf.endswith("__init__.py"):
                sub = self.modfile(module + "." + name)
                if sub is not None:
                    return VModule(module + "." + name)
            if name in self.repo.modfuncs.get(rf, {}):
                return VFunc(fi=self.repo.modfuncs[rf][name])
            ci = self.repo.cls(name, rf)
            if ci is not None and ci.relfile == rf:
                return VClass(name)
            # re-exported name
            tab = self.imports(rf)
            if name in tab:
                t = tab[name]
                if t[0] == "from":
                    return self.resolve_from_import(eng, t[1], t[2])
                return VModule(t[1])
            if name in self.repo.modassigns.get(rf, {}):
                return self.get_global(eng, rf, name)
            raise OutOfSubset("from %s import %s" % (module, name))
        # external module
        full = module + "." + name
        if full in X.MODULES:
            return VModule(full)
        if full in X.CLASSES:
            return VClass(X.CLASSES[full])
        return VFunc(ext=full)

    def lookup_name(self, eng, fr, n):
        if n == "S":
            return VModule("spec")
        if n == "G":
            return VModule("__globals__")
        if n == "ghost":
            gv = getattr(fr, "ghostview", None)
            o = VObj("Ghost", name="ghost")
            o.fields = gv if gv is not None else eng.ghost
            return o
        rf = fr.module
        if rf == "spec/specs.py":
            if n in self.specfuncs:
                return VFunc(fi=self.specfuncs[n])
            if n in self.specassigns:
                return eng.eval(self.specassigns[n], fr)
        if rf in self.repo.modassigns and n in self.repo.modassigns[rf]:
            return self.get_global(eng, rf, n)
        if rf in self.repo.modfuncs and n in self.repo.modfuncs[rf]:
            return VFunc(fi=self.repo.modfuncs[rf][n])
        ci = self.repo.cls(n, rf)
        if ci is not None and ci.relfile == rf:
            return VClass(n)
        tab = self.imports(rf)
        if n in tab:
            t = tab[n]
            if t[0] == "module":
                return VModule(t[1])
            return self.resolve_from_import(eng, t[1], t[2])
        if n in X.BUILTIN_EXC or n in EXC_PARENT:
            return VClass(n)
        if n in X.BUILTINS:
            return VFunc(ext="builtin:" + n)
        if n in ("True", "False"):
            return VBool(n == "True")
        ci = self.repo.cls(n)
        if ci is not None:
            return VClass(n)
        raise OutOfSubset("unresolved name %r in %s" % (n, fr.fi.qualname if fr.fi else "?"))

    def get_global(self, eng, rf, name):
        key = (rf, name)
        if key in eng.gstate:
            return eng.gstate[key]
        # declared symbolic initial value?
        ty = eng.global_types.get("%s:%s" % (rf, name)) or eng.global_types.get(name)
        if ty is not None:
            v = eng.fresh(ty, "g_" + name)
        else:
            node = self.repo.modassigns[rf][name]
            fr = Frame(None, None, {}, rf)
            try:
                v = eng.eval(node, fr)
            except OutOfSubset:
                raise OutOfSubset("module global %s:%s needs a declared type" % (rf, name))
        eng.gstate[key] = v
        return v

    def set_global(self, eng, rf, name, v):
        self.note_store(eng, None, "g:%s" % name)
        eng.gstate[(rf, name)] = v

    def set_module_attr(self, eng, mod, attr, v):
        rf = self.modfile(mod.name)
        if rf is None:
            raise OutOfSubset("store to external module attribute %s.%s" % (mod.name, attr))
        self.set_global(eng, rf, attr, v)

    def module_attr(self, eng, mod, attr, fr):
        name = mod.name
        if name == "__globals__":
            for k in eng.global_types:
                if ":" in k and k.split(":")[1] == attr:
                    return self.get_global(eng, k.split(":")[0], attr)
            rf = fr.module if fr is not None else None
            if rf in self.repo.modassigns and attr in self.repo.modassigns[rf]:
                return self.get_global(eng, rf, attr)
            raise OutOfSubset("G.%s: global not declared in the contract's globals" % attr)
        if name == "spec":
            if attr in self.specfuncs:
                return VFunc(fi=self.specfuncs[attr])
            if attr in self.specassigns:
                return eng.eval(self.specassigns[attr], Frame(None, None, {}, "spec/specs.py"))
            raise OutOfSubset("spec function %s missing" % attr)
        if name == "pygopherd.logger" and attr == "log":
            return VFunc(ext="logger.log")
        rf = self.modfile(name)
        if rf is not None:
            sub = self.modfile(name + "." + attr)
            if sub is not None:
                return VModule(name + "." + attr)
            if attr in self.repo.modfuncs.get(rf, {}):
                return VFunc(fi=self.repo.modfuncs[rf][attr])
            ci = self.repo.cls(attr, rf)
            if ci is not None and ci.relfile == rf:
                return VClass(attr)
            if attr in self.repo.modassigns.get(rf, {}):
                return self.get_global(eng, rf, attr)
            tab = self.imports(rf)
            if attr in tab:
                t = tab[attr]
                if t[0] == "from":
                    return self.resolve_from_import(eng, t[1], t[2])
                return VModule(t[1])
            if rf.endswith("__init__.py"):
                raise OutOfSubset("package attribute %s.%s" % (name, attr))
            raise OutOfSubset("module attribute %s.%s" % (name, attr))
        full = name + "." + attr
        if full in X.CONSTS:
            c = X.CONSTS[full]
            return VInt(c) if isinstance(c, int) else VStr(c)
        if full in X.MODULES:
            return VModule(full)
        if full in X.CLASSES:
            return VClass(X.CLASSES[full])
        return VFunc(ext=full)

    def class_attr(self, eng, clsname, attr, fr):
        node = self.repo.class_attr(clsname, attr)
        if node is None:
            return None
        ci = self.repo.cls(clsname)
        return eng.eval(node, Frame(None, clsname, {}, ci.relfile))

    def resolve_method(self, clsname, meth):
        return self.repo.resolve_method(clsname, meth)

    def obj_method(self, eng, obj, attr):
        if obj.cls in X.OBJ_METHODS and attr in X.OBJ_METHODS[obj.cls]:
            return VFunc(ext="obj:%s.%s" % (obj.cls, attr), selfobj=obj)
        return None

    # ---- frame (modifies) tracking ------------------------------------------------------
    def note_store(self, eng, obj, attr):
        fr = eng.frame_stack[-1] if eng.frame_stack else None
        allowed = eng.modifies
        if allowed is None or eng.in_callee_model:
            return
        if obj is None:
            name = attr  # g:name
        else:
            name = None
            for nm, o in eng.named_objs.items():
                if o is obj:
                    name = "%s.%s" % (nm, attr)
                    break
            if name is None:
                return  # object allocated inside the function: not in the frame's scope
        if name in allowed or (name.split(".")[0] + ".*") in allowed:
            return
        eng.oblige("%s.frame[%s]" % (eng.cur_label, name), False, kind="frame", note="store to %s outside modifies %r" % (name, sorted(allowed)))

    # ---- misc helpers used by Engine ----------------------------------------------------
    def int_to_str(self, eng, z):
        eng.assumptions_used.add("str(int): z3 int.to.str for n >= 0, '-' + int.to.str(-n) for n < 0 (CPython decimal rendering)")
        return z3.If(z >= 0, z3.IntToStr(z), z3.Concat(z3.StringVal("-"), z3.IntToStr(-z)))

    def percent_format(self, eng, fmt, args, node):
        if not is_conc(fmt.z):
            raise OutOfSubset("%-format with symbolic format string")
        args = eng.force(args)
        items = list(args.items) if isinstance(args, VTuple) else [args]
        parts = []
        s = fmt.z
        i = 0
        cur = ""
        ai = 0
        while i < len(s):
            if s[i] == "%":
                spec = s[i + 1]
                if spec == "%":
                    cur += "%"
                    i += 2
                    continue
                j = i + 1
                while s[j] in "0123456789":
                    j += 1
                spec = s[j]
                width = s[i + 1 : j]
                if ai >= len(items):
                    eng.raise_("TypeError", site=node.lineno)
                a = eng.force(items[ai])
                ai += 1
                if cur:
                    parts.append(VStr(cur))
                    cur = ""
                if spec == "s" and not width:
                    parts.append(eng.to_str(a))
                elif spec == "d":
                    if not isinstance(a, (VInt, VBool)):
                        eng.raise_("TypeError", site=node.lineno)
                    if width:
                        f = z3.Function("fmt_%sd" % width, z3.IntSort(), z3.StringSort())
                        parts.append(VStr(f(zint(eng.num(a)))))
                    else:
                        parts.append(eng.to_str(VInt(eng.num(a))))
                else:
                    raise OutOfSubset("%%-format spec %r" % spec)
                i = j + 1
            else:
                cur += s[i]
                i += 1
        if cur:
            parts.append(VStr(cur))
        if ai != len(items):
            eng.raise_("TypeError", site=node.lineno)
        return eng.concat_strs(parts)

    def dict_sym_value(self, eng, d, kz, valty):
        name = d.sym[0]
        if valty == "str":
            f = z3.Function("dict_val_" + name, kz.sort(), z3.StringSort())
            return VStr(f(kz))
        if valty == "int":
            f = z3.Function("dict_val_" + name, kz.sort(), z3.IntSort())
            return VInt(f(kz))
        if valty.startswith("opaque:"):
            f = z3.Function("dict_val_" + name, kz.sort(), U)
            return VOpaque(valty[7:], f(kz))
        if valty.startswith("obj:"):
            cache = getattr(d, "_objcache", None)
            if cache is None:
                cache = d._objcache = {}
            k = kz.sexpr()
            if k not in cache:
                o = VObj(valty[4:], name="%s[%s]" % (name, k[:30]))
                o.fieldty = dict(self.field_types(valty[4:]))
                cache[k] = o
            return cache[k]
        if valty == "list[str]":
            # non-empty list of strings per key (parse_qs)
            ln = z3.Function("dict_val_len_" + name, kz.sort(), z3.IntSort())(kz)
            eng.assume(ln >= 1)
            ef = z3.Function("dict_val_elem_" + name, kz.sort(), z3.IntSort(), z3.StringSort())
            return VList(None, ln, lambda i, kz=kz: VStr(ef(kz, zint(i))), "str")
        raise OutOfSubset("symbolic dict value type %s" % valty)

    def ctx_enter(self, eng, ctx):
        if isinstance(ctx, VObj) and ctx.cls in X.CTX_CLASSES:
            return ctx
        if isinstance(ctx, VOpaque):
            return ctx
        if isinstance(ctx, VDict) and getattr(ctx, "is_shelf", False):
            return ctx
        raise OutOfSubset("with over %r" % (ctx,))

    def ctx_exit(self, eng, ctx):
        if isinstance(ctx, VObj) and ctx.cls in X.CTX_CLASSES:
            X.ctx_close(eng, ctx)

    def loop_spec(self, fr, ordn, node):
        c = fr.contract
        if c is None:
            return None
        return c.loops.get(ordn)

    # ---- calls --------------------------------------------------------------------------
    def call(self, eng, e, fr):
        # special forms usable in contract clauses and in code
        if isinstance(e.func, ast.Name):
            n = e.func.id
            if n == "old" and fr.old is not None:
                return eng.eval(e.args[0], fr.old)
            if n == "implies":
                a = eng.truth(eng.eval(e.args[0], fr))
                if isinstance(a, bool):
                    if not a:
                        return VBool(True)
                    return VBool(eng.truth(eng.eval(e.args[1], fr)))
                # evaluate consequent under the antecedent (path-sensitive)
                if eng.branch(a):
                    return VBool(eng.truth(eng.eval(e.args[1], fr)))
                return VBool(True)
            if n == "super" and not e.args:
                return VSuper(fr.locals["self"], fr.fi.cls)
            if n == "hasattr":
                return self.hasattr_(eng, e, fr)
            if n == "isinstance":
                return self.isinstance_(eng, e, fr)
            if n in ("getattr", "setattr") and len(e.args) >= 2:
                nm = eng.force(eng.eval(e.args[1], fr))
                if isinstance(nm, VStr) and is_conc(nm.z):
                    obj = eng.force(eng.eval(e.args[0], fr))
                    if n == "getattr":
                        return eng.getattr(obj, nm.z, fr, e)
                    eng.setattr(obj, nm.z, eng.eval(e.args[2], fr), fr, e)
                    return NONE
                raise OutOfSubset("%s with non-literal name" % n)
            if n == "typeis":  # typeis(x, "str") -- contract helper
                v = eng.force(eng.eval(e.args[0], fr))
                t = e.args[1].value
                return VBool(_typeis(v, t))
            if n == "eval":
                return X.call_eval(eng, e, fr)
        if isinstance(e.func, ast.Attribute) and isinstance(e.func.value, ast.Call) and isinstance(e.func.value.func, ast.Name) and e.func.value.func.id == "super":
            sup = eng.eval(e.func.value, fr)
            fi = self.repo.resolve_method(sup.obj.cls, e.func.attr, after=sup.after)
            args, kwargs = self.eval_args(eng, e, fr)
            if fi is None:
                if e.func.attr == "__init__":
                    return NONE
                raise OutOfSubset("super().%s unresolved" % e.func.attr)
            return self.call_repo(eng, fi, [sup.obj] + args, kwargs, sup.obj.cls, e)
        f = eng.force(eng.eval(e.func, fr))
        args, kwargs = self.eval_args(eng, e, fr)
        return self.call_value(eng, f, args, kwargs, e, fr)

    def eval_args(self, eng, e, fr):
        args = []
        for a in e.args:
            if isinstance(a, ast.Starred):
                raise OutOfSubset("*args at call")
            args.append(eng.eval(a, fr))
        kwargs = {}
        for k in e.keywords:
            if k.arg is None:
                raise OutOfSubset("**kwargs at call")
            kwargs[k.arg] = eng.eval(k.value, fr)
        return args, kwargs

    def call_value(self, eng, f, args, kwargs, node, fr):
        if isinstance(f, VFunc):
            if f.fi is not None:
                if f.selfobj is not None:
                    return self.call_repo(eng, f.fi, [f.selfobj] + args, kwargs, f.selfobj.cls if isinstance(f.selfobj, VObj) else None, node)
                if f.fi.cls is not None and args:
                    # explicit Base.method(self, ...)
                    s = eng.force(args[0])
                    return self.call_repo(eng, f.fi, args, kwargs, s.cls if isinstance(s, VObj) else None, node)
                return self.call_repo(eng, f.fi, args, kwargs, None, node)
            return X.call_external(eng, self, f.ext, f.selfobj, args, kwargs, node, fr)
        if isinstance(f, VClass):
            return self.construct(eng, f.name, args, kwargs, node, fr)
        if isinstance(f, VOpaque) and "call" in f.attrs:
            return f.attrs["call"](eng, args, kwargs, node)
        raise OutOfSubset("call of %r" % (f,))

    def construct(self, eng, clsname, args, kwargs, node, fr):
        if clsname in X.BUILTIN_EXC or (self.repo.cls(clsname) is None and clsname in EXC_PARENT):
            return VExc(clsname, args)
        if eng.contract is not None and ("construct:" + clsname) in eng.contract.opts:
            return eng.contract.opts["construct:" + clsname](eng, self, clsname, args, kwargs, node, fr)
        ci = self.repo.cls(clsname)
        if ci is None:
            return X.construct_external(eng, self, clsname, args, kwargs, node, fr)
        if self.exc_isa(clsname, "BaseException"):
            exc = VExc(clsname, list(args))
            init = self.repo.resolve_method(clsname, "__init__")
            if init is not None:
                self.call_repo(eng, init, [exc] + args, kwargs, clsname, node)
            return exc
        obj = VObj(clsname, name=eng.fresh_name("new_" + clsname))
        obj.fieldty = dict(self.field_types(clsname))
        obj.fresh_alloc = True
        init = self.repo.resolve_method(clsname, "__init__")
        while init is not None and _is_passthrough_init(init):
            init = self.repo.resolve_method(clsname, "__init__", after=init.cls)
        if init is not None:
            self.call_repo(eng, init, [obj] + args, kwargs, clsname, node)
            c = self.find_contract(init.qualname, clsname)
            if c is not None and not c.inline and init.qualname not in (eng.contract.opts.get("inline_callees", ()) if eng.contract else ()):
                # constructed through a contract: fields the contract says nothing about are unknown, not absent
                obj.fresh_alloc = False
        return obj

    def bind_params(self, eng, fi, args, kwargs, fr_module):
        a = fi.node.args
        if a.vararg or a.kwarg:
            raise OutOfSubset("*args/**kwargs in %s" % fi.qualname)
        names = [x.arg for x in a.posonlyargs + a.args]
        defaults = [None] * (len(names) - len(a.defaults)) + list(a.defaults)
        out = {}
        if len(args) > len(names):
            raise OutOfSubset("too many args for %s" % fi.qualname)
        for n, v in zip(names, args):
            out[n] = v
        for k, v in kwargs.items():
            if k not in names or k in out:
                raise OutOfSubset("bad keyword %s for %s" % (k, fi.qualname))
            out[k] = v
        for n, d in zip(names, defaults):
            if n not in out:
                if d is None:
                    raise OutOfSubset("missing argument %s for %s" % (n, fi.qualname))
                out[n] = eng.eval(d, Frame(fi, None, {}, fr_module))
        return out

    def call_repo(self, eng, fi, args, kwargs, selfcls, node):
        if fi.relfile == "spec/specs.py":
            return self.inline_call(eng, fi, args, kwargs, None)
        c = self.find_contract(fi.qualname, selfcls)
        if eng.contract is not None and fi.qualname in eng.contract.opts.get("inline_callees", ()):
            eng.inlined.add(fi.qualname)
            return self.inline_call(eng, fi, args, kwargs, selfcls)
        if c is not None and not c.inline:
            return self.apply_contract(eng, c, fi, args, kwargs, selfcls, node)
        if (c is not None and c.inline) or fi.qualname in self.inline_ok:
            eng.inlined.add(fi.qualname)
            return self.inline_call(eng, fi, args, kwargs, selfcls)
        if (c is None and eng.contract is not None and eng.contract.opts.get("inline_module_helpers")
                and fi.cls is None and fi.relfile == eng.fi.relfile):
            # a helper function of the same module without a contract of its own: part of the body
            eng.inlined.add(fi.qualname)
            return self.inline_call(eng, fi, args, kwargs, selfcls)
        if c is None and eng.fi is not None and fi.relfile == eng.fi.relfile and fi.cls is not None and fi.cls == eng.fi.cls \
                and not self.has_any_contract(fi.qualname):
            # a method of the same class that nobody has put under contract (e.g. a helper introduced by a
            # change): treated as part of the calling body and reported as inlined
            eng.inlined.add(fi.qualname + " (uncontracted helper)")
            return self.inline_call(eng, fi, args, kwargs, selfcls)
        raise OutOfSubset("call to %s (self class %s): no contract and not declared inline" % (fi.qualname, selfcls))

    def inline_call(self, eng, fi, args, kwargs, selfcls):
        locs = self.bind_params(eng, fi, args, kwargs, fi.relfile)
        fr = Frame(fi, selfcls or fi.cls, locs, fi.relfile)
        fr.contract = self.find_contract(fi.qualname, selfcls)
        fr.old = None
        if len(eng.frame_stack) > 40:
            raise OutOfSubset("inline depth")
        eng.frame_stack.append(fr)
        try:
            eng.exec_block(fi.node.body, fr)
            return NONE
        except ReturnEx as r:
            return r.value
        finally:
            eng.frame_stack.pop()

    def apply_contract(self, eng, c, fi, args, kwargs, selfcls, node):
        """Modular call: assert requires, havoc modifies, branch on raises, assume ensures."""
        eng.callees_by_contract.add(fi.qualname)
        locs = self.bind_params(eng, fi, args, kwargs, fi.relfile)
        fr = Frame(fi, selfcls or fi.cls, locs, fi.relfile)
        fr.contract = c
        fr.old = None
        label = "%s.call[%s]" % (eng.cur_label, fi.name if not fi.cls else fi.cls + "." + fi.name)
        for g, ty in c.ghost.items():
            if g not in eng.ghost:
                eng.ghost[g] = X.ghost_init(eng, g, ty)
        selfobj = locs.get("self")
        if isinstance(selfobj, VObj):
            for k, t in c.fields.items():
                selfobj.fieldty.setdefault(k, t)
        saved = eng.in_callee_model
        eng.in_callee_model = True
        try:
            skip_subs = eng.contract.opts.get("assume_requires", ()) if eng.contract else ()
            for i, r in enumerate(c.requires):
                if any(sub in r for sub in skip_subs):
                    eng.assumptions_used.add("at a call of %s from %s the precondition %r is assumed, not proved: %s" % (fi.qualname, eng.cur_label, r, eng.contract.opts.get("assume_requires_why", "")))
                    eng.assume(eng.eval_merged(lambda r=r: eng.truth(eng.eval_str(r, fr))))
                    continue
                eng.in_callee_model = saved
                eng.oblige("%s.requires[%d]" % (label, i), _clause(eng, r, fr), kind="call-requires", site=getattr(node, "lineno", None), note=r)
                eng.in_callee_model = True
                eng.assume(eng.eval_merged(lambda r=r: eng.truth(eng.eval_str(r, fr))))
            # pre-state snapshot for old() and for raises conditions
            oldfr = Frame(fi, fr.selfcls, snapshot(locs), fi.relfile)
            oldfr.old = None
            oldfr.contract = c
            oldfr.ghostview = snapshot(eng.ghost)
            # raises (may): decided before the havoc, conditions over the pre-state
            for exc, cond in c.raises.items():
                condv = True if cond is True else eng.eval_merged(lambda: eng.truth(eng.eval_str(cond, fr)))
                if isinstance(condv, bool) and not condv:
                    continue
                if (isinstance(condv, bool) or eng.branch(condv)) and eng.branch_fresh("raises_%s_%s" % (fi.name, exc)):
                    self.havoc_modifies(eng, c, fr, fi)
                    excv = VExc(exc, self.exc_args_for(eng, exc, fi))
                    fr2 = fr
                    fr2.old = oldfr
                    fr2.locals["raised"] = excv
                    for cl in c.on_raise.get(exc, []) + c.on_raise.get("*", []):
                        eng.assume(eng.truth(eng.eval_str(cl, fr2)))
                    raise Raised(excv, getattr(node, "lineno", None))
            self.havoc_modifies(eng, c, fr, fi)
            fr.old = oldfr
            res = None
            ens = list(c.ensures)
            if ens:
                t0 = self.parse_expr(ens[0])
                if (isinstance(t0, ast.Compare) and len(t0.ops) == 1 and isinstance(t0.ops[0], ast.Eq)
                        and isinstance(t0.left, ast.Name) and t0.left.id == "result" and c.returns in ("str", "int", "bool", "bytes")):
                    # definitional result:  result == <expr>
                    res = eng.eval_merged(lambda: eng.force(eng.eval(t0.comparators[0], fr)))
                    ens = ens[1:]
            res_fresh = False
            if res is None:
                res = self.fresh_result(eng, c, fi)
                res_fresh = True
                ens = list(c.ensures)
            if c.result_elem and isinstance(res, VList) and not res.concrete():
                self.wrap_elem_pred(eng, res, c.result_elem, fi)
            fr.locals["result"] = res
            defined = set()
            if c.ensures_assumed:
                eng.assumptions_used.add("caller-visible ghost definition of %s: %s" % (fi.qualname, "; ".join(c.ensures_assumed)))
            for cl in ens + c.ensures_assumed:
                tree = self.parse_expr(cl)
                guard = None
                if (isinstance(tree, ast.Call) and isinstance(tree.func, ast.Name) and tree.func.id == "implies"
                        and isinstance(tree.args[1], ast.Compare) and isinstance(tree.args[1].left, ast.Attribute)
                        and isinstance(tree.args[1].left.value, ast.Name)
                        and ("%s.%s" % (tree.args[1].left.value.id, tree.args[1].left.attr)) in (c.modifies or [])):
                    # conditional definition: implies(G, X.f == E)
                    if not eng.branch(eng.eval_merged(lambda t=tree: eng.truth(eng.eval(t.args[0], fr)))):
                        continue
                    tree = tree.args[1]
                # definitional update:  X.f == <expr>  (or `is`) with X.f (or X.*) in modifies: assign, do not assume
                if (isinstance(tree, ast.Compare) and len(tree.ops) == 1 and isinstance(tree.ops[0], (ast.Eq, ast.Is))
                        and isinstance(tree.left, ast.Attribute) and isinstance(tree.left.value, ast.Name)):
                    base, attr = tree.left.value.id, tree.left.attr
                    mods = c.modifies or []
                    if ("%s.%s" % (base, attr)) in mods or (base + ".*") in mods or (base == "result" and isinstance(res, VObj) and res_fresh):
                        val = eng.eval_merged(lambda t=tree: eng.eval(t.comparators[0], fr))
                        if base == "ghost":
                            eng.ghost[attr] = val
                        else:
                            tgt = eng.force(fr.locals[base])
                            tgt.fields[attr] = val
                            tgt.unset.discard(attr)
                        defined.add("%s.%s" % (base, attr))
                        continue
                eng.assume_clauses = getattr(eng, "assume_clauses", 0) + 1
                try:
                    cv = eng.eval_merged(lambda cl=cl: eng.truth(eng.eval_str(cl, fr)))
                finally:
                    eng.assume_clauses -= 1
                if cv is False or (not isinstance(cv, bool) and z3.is_false(z3.simplify(cv))):
                    # assuming it would silently cut the path (vacuity): the contract cannot be applied here
                    raise OutOfSubset("postcondition %r of %s is unsatisfiable at this call site (contract error)" % (cl, fi.qualname))
                eng.assume(cv)
            return res
        finally:
            eng.in_callee_model = saved

    def exc_args_for(self, eng, exc, fi):
        if exc_isa(exc, "OSError"):
            # OSError raised by the platform: either 1 arg (socket.timeout('timed out')) or (errno, strerror)
            return X.oserror_args(eng, fi.name)
        return [VStr(z3.String(eng.fresh_name("excmsg_%s" % exc)))]

    def fresh_result(self, eng, c, fi):
        if c.returns is None or c.returns == "none":
            return NONE
        return eng.fresh(c.returns, "ret_" + fi.name)

    def havoc_modifies(self, eng, c, fr, fi):
        for m in c.modifies or []:
            if m.startswith("g:"):
                name = m[2:]
                rf = fi.relfile
                if ":" in name:
                    rf, name = name.split(":")
                cur = self.get_global(eng, rf, name)
                eng.gstate[(rf, name)] = eng.fresh_like(cur, "hv_" + name)
            elif m.startswith("ghost."):
                g = m[6:]
                if g in eng.ghost and not (isinstance(eng.ghost[g], VList) and eng.ghost[g].concrete()):
                    eng.ghost[g] = eng.fresh_like(eng.ghost[g], "hv_ghost_" + g)
            elif m.endswith(".*"):
                obj = eng.force(fr.locals.get(m[:-2]))
                if isinstance(obj, VObj) and not (getattr(obj, "fresh_alloc", False) and fi.name == "__init__"):
                    for f in list(obj.fields):
                        ty = obj.fieldty.get(f)
                        if ty and not ty.startswith(("maybe:", "ghost:", "obj:", "opaque:")):
                            obj.fields[f] = eng.fresh(ty, "hv_%s_%s" % (obj.name, f))
                        elif isinstance(obj.fields[f], (VStr, VInt, VBool, VReal, VOpt, VList, VTuple)):
                            obj.fields[f] = eng.fresh_like(obj.fields[f], "hv_%s_%s" % (obj.name, f))
            elif "." in m:
                base, f = m.rsplit(".", 1)
                obj = eng.force(eng.eval_str(base, fr))
                if isinstance(obj, VObj):
                    ty = obj.fieldty.get(f) or c.fields.get(f)
                    if f in obj.fields and ty is None:
                        obj.fields[f] = eng.fresh_like(obj.fields[f], "hv_%s_%s" % (obj.name, f))
                    elif ty is not None:
                        if ty.startswith("maybe:"):
                            ty = ty[6:]
                        obj.fields[f] = eng.fresh(ty, "hv_%s_%s" % (obj.name, f))
                        obj.unset.discard(f)
                    # a field this (sub)class does not have: nothing to havoc
            else:
                raise OutOfSubset("modifies clause %r" % m)

    def hasattr_(self, eng, e, fr):
        obj = eng.force(eng.eval(e.args[0], fr))
        nm = eng.force(eng.eval(e.args[1], fr))
        if not (isinstance(nm, VStr) and is_conc(nm.z)):
            raise OutOfSubset("hasattr with non-literal")
        a = nm.z
        if isinstance(obj, VObj):
            if a in obj.fields:
                return VBool(True)
            if a in obj.unset:
                return VBool(False)
            ty = obj.fieldty.get(a)
            if ty is not None and ty.startswith("maybe:") and not getattr(obj, "fresh_alloc", False):
                src = getattr(obj, "live", None) or obj
                try:
                    v = eng.entry_value(src, a, e)
                except Raised:
                    obj.unset.add(a)
                    return VBool(False)
                from .engine import _container_copy
                obj.fields[a] = _container_copy(v)
                return VBool(True)
            if getattr(obj, "fresh_alloc", False):
                return VBool(self.repo.resolve_method(obj.cls, a) is not None)
            if ty is not None:
                return VBool(True)
            if self.repo.resolve_method(obj.cls, a) is not None:
                return VBool(True)
            if getattr(obj, "fresh_alloc", False):
                return VBool(False)
            raise OutOfSubset("hasattr(%s, %r): field not declared (use maybe:<type>)" % (obj.name, a))
        raise OutOfSubset("hasattr on %r" % (obj,))

    def isinstance_(self, eng, e, fr):
        v = eng.force(eng.eval(e.args[0], fr))
        cnode = e.args[1]
        c = eng.force(eng.eval(cnode, fr))
        if isinstance(c, VTuple):
            names = [x.name for x in c.items]
        elif isinstance(c, VClass):
            names = [c.name]
        elif isinstance(c, VFunc) and getattr(c, "ext", None) and str(c.ext).startswith("builtin:"):
            names = [c.ext[8:]]
        elif isinstance(c, VFunc) and getattr(c, "ext", None):
            names = [str(c.ext).split(".")[-1]]  # external class (e.g. email.header.Header): matched by name
        else:
            raise OutOfSubset("isinstance class arg %r" % (c,))
        res = []
        for n in names:
            res.append(self._isinst(eng, v, n))
        return VBool(eng.or_(res))

    def _isinst(self, eng, v, n):
        if isinstance(v, VObj):
            if self.repo.cls(v.cls) is not None and self.repo.cls(n) is not None:
                return self.repo.issubclass(v.cls, n)
            return v.cls == n
        if isinstance(v, VExc):
            return self.exc_isa(v.cls, n)
        if isinstance(v, VOpaque) and v.tag == n:
            return True
        if isinstance(v, VOpaque):
            if "classvar" in v.attrs:
                # object whose class is symbolic among a finite set read from the AST
                return v.attrs["classvar"](eng, n)
            f = z3.Function("isinstance_" + n.replace(".", "_"), U, z3.BoolSort())
            return f(v.z)
        pytype = {"str": VStr, "int": VInt, "dict": VDict, "list": VList, "tuple": VTuple, "bool": VBool, "bytes": VStr}
        if n in pytype:
            if n in ("str", "bytes") and isinstance(v, VStr):
                return v.isbytes == (n == "bytes")
            return isinstance(v, pytype[n])
        if v is NONE:
            return False
        if isinstance(v, (VStr, VInt, VBool, VList, VDict, VTuple)):
            return False
        raise OutOfSubset("isinstance(%r, %s)" % (v, n))

    def wrap_elem_pred(self, eng, lst, pred, fi):
        inner = lst.get
        seen = set()

        def get(i):
            v = inner(i)
            key = z3.simplify(zint(i)).sexpr()
            if key not in seen:
                seen.add(key)
                ef = Frame(None, None, {"elem": v}, "spec/specs.py")
                eng.assume(eng.eval_merged(lambda: eng.truth(eng.eval_str(pred, ef))))
            return v

        lst.get = get

    def alias_requires(self, eng, clause, fr):
        """`requires A.f is B.g` over object-valued fields: the precondition is an aliasing fact; make the
        two paths denote the same symbolic object."""
        tree = self.parse_expr(clause)
        if (isinstance(tree, ast.Call) and isinstance(tree.func, ast.Name) and tree.func.id == "implies" and len(tree.args) == 2
                and isinstance(tree.args[1], ast.Compare) and len(tree.args[1].ops) == 1 and isinstance(tree.args[1].ops[0], ast.Is)
                and isinstance(tree.args[1].left, ast.Attribute)):
            # guarded aliasing fact (implies(x is not None, x.f is y)): decide the guard on this path, then alias
            if not eng.branch(eng.truth(eng.eval(tree.args[0], fr))):
                return True
            tree = tree.args[1]
        if not (isinstance(tree, ast.Compare) and len(tree.ops) == 1 and isinstance(tree.ops[0], ast.Is)
                and isinstance(tree.left, ast.Attribute)):
            return False
        rhs = eng.force(eng.eval(tree.comparators[0], fr))
        if not isinstance(rhs, VObj):
            return False
        holder = eng.force(eng.eval(tree.left.value, fr))
        if not isinstance(holder, VObj):
            return False
        cur = holder.fields.get(tree.left.attr)
        if cur is rhs:
            return True
        holder.fields[tree.left.attr] = rhs
        holder.entry[tree.left.attr] = rhs
        return True

    def use_lemma(self, eng, lname, binds, fr):
        """Instantiate a lemma (itself an obligation of the same run) at the given terms."""
        lem = self.lemmas[lname]
        locs = {k: eng.eval_str(v, fr) for k, v in binds.items()}
        lf = Frame(None, None, locs, "spec/specs.py")
        hyps = [eng.eval_merged(lambda h=h: eng.truth(eng.eval_str(h, lf))) for h in lem.hyp]
        goals = [eng.eval_merged(lambda g=g: eng.truth(eng.eval_str(g, lf))) for g in lem.goal]
        eng.assume(z3.Implies(z3.And(*[zbool(h) for h in hyps]) if hyps else z3.BoolVal(True), z3.And(*[zbool(g) for g in goals])))
        eng.lemmas_used.add(lname)

    # ---- verification of one target ----------------------------------------------------
    def verify_target(self, c, selfcls, label=None, extra_ensures=None, canary=False):
        fi = self.repo.get(c.qualname)
        if fi is None:
            raise OutOfSubset("function %s not found in repository" % c.qualname)
        if selfcls is not None and selfcls.startswith("<"):
            # pseudo class "<tag>" or "<tag>RealClass": a second contract (another configuration) of the same function
            selfcls = selfcls.split(">", 1)[1] or None
        label = label or (c.label or ((selfcls + "::" if selfcls and selfcls != fi.cls else "") + (fi.cls + "." if fi.cls else "") + fi.name))
        eng = Engine(self, label)
        eng.cur_label = label
        eng.global_types = dict(c.globals)
        eng.modifies = set(c.modifies) if c.modifies is not None else None
        eng.contract = c
        eng.fi = fi
        world = self
        ensures = (list(c.ensures) + list(c.ensures_internal)) if not canary else [c.canary]

        def body(eng):
            eng.gstate = {}
            eng.frame_stack = []
            eng.in_callee_model = False
            eng.named_objs = {}
            eng.ghost = {}
            for g, ty in c.ghost.items():
                eng.ghost[g] = X.ghost_init(eng, g, ty)
            a = fi.node.args
            names = [x.arg for x in a.posonlyargs + a.args]
            locs = {}
            for n in names:
                if n == "self" and fi.cls:
                    o = VObj(selfcls or fi.cls, name="self")
                    o.fieldty = dict(world.field_types(selfcls or fi.cls))
                    o.fieldty.update(c.fields)
                    locs[n] = o
                else:
                    ty = c.params.get(n)
                    if ty is None:
                        raise OutOfSubset("parameter %s of %s has no declared type" % (n, fi.qualname))
                    locs[n] = eng.fresh(ty, n)
                if isinstance(locs[n], VObj):
                    eng.named_objs[n] = locs[n]
            for n, ty in c.locals.items():
                locs[n] = eng.fresh(ty, n)
            locs_entry = dict(locs)
            fr = Frame(fi, selfcls or fi.cls, locs, fi.relfile)
            fr.contract = c
            fr.old = None
            eng.frame_stack.append(fr)
            if c.setup:
                c.setup(eng, fr)
            for fld, expr in c.init.items():
                base, attr = fld.rsplit(".", 1) if "." in fld else ("self", fld)
                tgt = eng.force(eng.eval_str(base, fr))
                tgt.fields[attr] = eng.eval_str(expr, fr)
            for r in c.requires:
                if world.alias_requires(eng, r, fr):
                    continue
                t_ = world.parse_expr(r)
                if isinstance(t_, ast.Call) and isinstance(t_.func, ast.Name) and t_.func.id == "markup_safe":
                    # precondition on a parameter: the caller has shown the string to be safe markup
                    v_ = eng.force(eng.eval(t_.args[0], fr))
                    if isinstance(v_, VStr) and not is_conc(v_.z):
                        eng.safe_terms.add(zstr(v_.z).get_id())
                        eng.keepalive.append(zstr(v_.z))
                    continue
                eng.assume(eng.eval_merged(lambda r=r: eng.truth(eng.eval_str(r, fr))))
            for lname, binds in c.use_lemmas:
                world.use_lemma(eng, lname, binds, fr)
            # pre-state snapshot
            oldfr = Frame(fi, fr.selfcls, snapshot(locs), fi.relfile)
            oldfr.contract = c
            oldfr.old = None
            snap_g = snapshot(eng.ghost)
            oldfr.ghostview = snap_g
            fr.old = oldfr
            eng.old_ghost = snap_g
            eng.old_gstate = None
            result = NONE
            raised = None
            try:
                eng.exec_block(fi.node.body, fr)
            except ReturnEx as r:
                result = r.value
            except Raised as r:
                raised = r
            except (BreakEx, ContinueEx):
                raise OutOfSubset("break/continue outside loop")
            eng.exits = getattr(eng, "exits", 0) + 1
            post = Frame(fi, fr.selfcls, dict(fr.locals), fi.relfile)
            # parameters in postconditions refer to the (possibly mutated) objects; rebinding of
            # parameter *names* inside the body does not affect the caller: use entry bindings
            for n in names:
                post.locals[n] = locs_entry[n]
            post.contract = c
            post.old = oldfr
            oldfr.ghostview = snap_g
            eng.frame_stack[-1] = post
            if raised is None:
                post.locals["result"] = result
                post.locals["raised"] = NONE
                if c.result_elem and not canary:
                    rl = eng.force(result)
                    if isinstance(rl, VList):
                        idx = z3.Int(eng.fresh_name("elem_index"))
                        n = zint(eng.list_len(rl))
                        if eng.branch(z3.And(idx >= 0, idx < n)):
                            ef = Frame(None, None, {"elem": eng.list_get(rl, idx)}, "spec/specs.py")
                            eng.oblige("%s.result_elem" % label, _clause(eng, c.result_elem, ef), kind="ensures", note="for every element: " + c.result_elem)
                        else:
                            eng.oblige("%s.result_elem" % label, True, kind="ensures", note="for every element: " + c.result_elem)
                for i, cl in enumerate(ensures):
                    nm = "%s.ensures[%d]" % (label, i) if not canary else "%s.canary" % label
                    eng.oblige(nm, _clause(eng, cl, post), kind="ensures" if not canary else "canary", note=cl)
            else:
                exc = raised.exc
                post.locals["raised"] = exc
                if canary:
                    return
                allowed = False
                for en, cond in c.raises.items():
                    if world.exc_isa(exc.cls, en):
                        allowed = True
                        if cond is not True:
                            eng.oblige("%s.raises[%s].condition" % (label, en), eng.eval_merged(lambda: eng.truth(eng.eval_str(cond, oldfr))), kind="raises", site=raised.site, note=cond)
                        for j, cl in enumerate(c.on_raise.get(en, []) + c.on_raise.get("*", [])):
                            eng.oblige("%s.on_raise[%s][%d]" % (label, en, j), _clause(eng, cl, post), kind="on_raise", site=raised.site, note=cl)
                        break
                if not allowed:
                    eng.oblige("%s.raises-only-declared" % label, False, kind="raises", site=raised.site, note="%s escapes (raised at line %s); declared: %s" % (exc.cls, raised.site, sorted(c.raises)))

        eng.salvage = not canary
        eng.run_all(body)
        if not canary and not eng.incomplete:
            for key in c.opts.get("must_hit", ()):
                if key not in eng.at_hits:
                    from .engine import VC
                    nm = "%s.at-reached[%s]" % (label, key[6:][:50])
                    # the statement the point assertion was attached to is gone (rewritten or removed): nothing is
                    # decided about it - UNDECIDED, and the function's scenario harness is run; it is not a refutation
                    vc = VC(nm, [], z3.BoolVal(False), "assert", None, (), "the statement %r is no longer executed on any path: its point assertion cannot be checked" % key[6:])
                    vc.fixed_status = "unknown"
                    eng.vcs[(nm, (), 0)] = vc
        return eng


def _clause(eng, cl, fr):
    """Truth of a contract clause; a clause whose evaluation raises does not hold."""
    try:
        return eng.eval_merged(lambda: eng.truth(eng.eval_str(cl, fr)))
    except Raised as r:
        return False


def _is_passthrough_init(fi):
    """def __init__(self, *args, **kwargs): super().__init__(*args, **kwargs)"""
    a = fi.node.args
    if not (a.vararg and a.kwarg and len(a.args) == 1):
        return False
    body, _ = strip_dropped(fi.node.body)
    if len(body) != 1 or not isinstance(body[0], ast.Expr) or not isinstance(body[0].value, ast.Call):
        return False
    call = body[0].value
    f = call.func
    return (isinstance(f, ast.Attribute) and f.attr == "__init__" and isinstance(f.value, ast.Call)
            and isinstance(f.value.func, ast.Name) and f.value.func.id == "super"
            and len(call.args) == 1 and isinstance(call.args[0], ast.Starred) and len(call.keywords) == 1 and call.keywords[0].arg is None)


def _typeis(v, t):
    return {
        "str": isinstance(v, VStr) and not v.isbytes,
        "bytes": isinstance(v, VStr) and v.isbytes,
        "int": isinstance(v, VInt),
        "none": v is NONE,
        "list": isinstance(v, VList),
        "obj": isinstance(v, VObj),
    }.get(t, False)


def snapshot(x, memo=None):
    """Copy the mutable spine of a value graph (objects, lists, dicts); z3 terms are shared."""
    if memo is None:
        memo = {}
    if id(x) in memo:
        return memo[id(x)]
    if isinstance(x, dict):
        out = {}
        memo[id(x)] = out
        for k, v in x.items():
            out[k] = snapshot(v, memo)
        return out
    if isinstance(x, VObj):
        o = VObj(x.cls, name=x.name)
        memo[id(x)] = o
        o.fieldty = x.fieldty  # shared: late declarations visible in old state too
        o.unset = set(x.unset)
        o.fields = {k: snapshot(v, memo) for k, v in x.fields.items()}
        o.live = x  # fields not yet materialised are read through to the live object (unchanged since entry)
        return o
    if isinstance(x, VList):
        if x.concrete():
            o = VList(None)
            memo[id(x)] = o
            o.items = [snapshot(v, memo) for v in x.items]
            o.elemty = x.elemty
            o.ident = getattr(x, "ident", x)
            return o
        o = VList(None, x.n, x.get, x.elemty)
        o.ident = getattr(x, "ident", x)
        memo[id(x)] = o
        return o
    if isinstance(x, VDict):
        o = VDict({}, sym=x.sym, valty=x.valty)
        o.ident = getattr(x, "ident", x)
        memo[id(x)] = o
        o.items = {k: snapshot(v, memo) for k, v in x.items.items()}
        o.overrides = [(k, snapshot(v, memo)) for k, v in x.overrides]
        return o
    if isinstance(x, VTuple):
        return VTuple([snapshot(v, memo) for v in x.items])
    if isinstance(x, VOpt):
        return VOpt(x.isnone, snapshot(x.inner, memo))
    if isinstance(x, VExc):
        if isinstance(x.args, LazyOSArgs):
            return x
        return VExc(x.cls, [snapshot(v, memo) for v in x.args], {k: snapshot(v, memo) for k, v in x.attrs.items()})
    return x
